package main

import (
	"encoding/json"
	"fmt"
	"math"
	"math/rand"
	"sync"

	"github.com/tidwall/geojson/geometry"
)

// c18 <casefile,casefile,...> <outdir> <seed> <nrandom> <nmaps>
func init() { commands["c18"] = c18 }

var indexConfigs = []geometry.IndexOptions{
	{Kind: geometry.None, MinPoints: 0},
	{Kind: geometry.RTree, MinPoints: 1},
	{Kind: geometry.QuadTree, MinPoints: 1},
}

func mapPts(mp Map, ring [][]int) []geometry.Point {
	out := make([]geometry.Point, len(ring))
	for i, p := range ring {
		out[i] = mp.P(p[0], p[1])
	}
	return out
}

func rot(ring [][]int, k int) [][]int {
	n := len(ring)
	out := make([][]int, n)
	for i := range ring {
		out[i] = ring[(i+k)%n]
	}
	return out
}

func rev(ring [][]int) [][]int {
	n := len(ring)
	out := make([][]int, n)
	for i := range ring {
		out[i] = ring[n-1-i]
	}
	return out
}

func segInts(mp Map, s geometry.Segment) [][]float64 {
	return [][]float64{{s.A.X, s.A.Y}, {s.B.X, s.B.Y}}
}

type c18row struct {
	ring       [][]int
	convex, cw int
	segsClosed [][][]int
	segsOpen   [][][]int
	emptyC     int
	emptyO     int
}

func c18(args []string) error {
	if len(args) != 5 {
		return fmt.Errorf("usage: c18 casefiles outdir seed nrandom nmaps")
	}
	outdir := args[1]
	seed, nrandom, nmaps := atoi(args[2]), atoi(args[3]), atoi(args[4])
	ev, err := newEvents(outdir + "/c18.events.ndjson")
	if err != nil {
		return err
	}
	defer ev.Close()
	rng := rand.New(rand.NewSource(int64(seed)))
	maps := append(fixedMaps(3), seededMaps(rng, 3, nmaps)...)
	// very fine lattices: every product of two coordinate differences is still exact, but tiny (2^-60 ... 2^-52): an absolute
	// tolerance on turns or areas mistakes them for zero
	maps = append(maps, Map{"2^-30", math.Ldexp(1, -30), 0, 0}, Map{"2^-26", math.Ldexp(1, -26), 0, 0})

	var evals, mism, rows int64
	var mu sync.Mutex
	var wg sync.WaitGroup
	work := make(chan []byte, 1024)
	for w := 0; w < 16; w++ {
		wg.Add(1)
		go func() {
			defer wg.Done()
			var le, lm, lr int64
			bad := func(e obj) {
				lm++
				e["src"] = "replay"
				ev.Emit(e)
			}
			for line := range work {
				var raw []json.RawMessage
				if err := json.Unmarshal(line, &raw); err != nil {
					panic(err)
				}
				var r c18row
				json.Unmarshal(raw[1], &r.ring)
				json.Unmarshal(raw[2], &r.convex)
				json.Unmarshal(raw[3], &r.cw)
				json.Unmarshal(raw[4], &r.segsClosed)
				json.Unmarshal(raw[5], &r.segsOpen)
				json.Unmarshal(raw[6], &r.emptyC)
				json.Unmarshal(raw[7], &r.emptyO)
				lr++
				n := len(r.ring)
				for ci, opts := range indexConfigs {
					opts := opts
					mp := maps[(int(lr)+ci)%len(maps)]
					pts := mapPts(mp, r.ring)
					// closed series as given
					poly := geometry.NewPoly(pts, nil, &opts)
					ser := poly.Exterior
					le += 4
					if got := ser.NumSegments(); got != len(r.segsClosed) {
						bad(obj{"op": "nseg", "ring": r.ring, "closed": true, "got": got, "exp": len(r.segsClosed), "map": mp.Name, "index": ci})
					} else {
						for i := 0; i < got; i++ {
							s := ser.SegmentAt(i)
							e := r.segsClosed[i]
							if s.A != mp.P(e[0][0], e[0][1]) || s.B != mp.P(e[1][0], e[1][1]) {
								bad(obj{"op": "seg", "ring": r.ring, "closed": true, "i": i, "got": "other", "exp": e, "map": mp.Name, "index": ci})
							}
						}
					}
					if got := ser.Empty(); got != (r.emptyC == 1) {
						bad(obj{"op": "empty", "ring": r.ring, "closed": true, "got": got, "exp": r.emptyC == 1, "map": mp.Name, "index": ci})
					}
					if ser.NumPoints() != n {
						bad(obj{"op": "npoints", "ring": r.ring, "closed": true, "got": ser.NumPoints(), "exp": n, "map": mp.Name, "index": ci})
					} else {
						for i := 0; i < n; i++ {
							if ser.PointAt(i) != pts[i] {
								bad(obj{"op": "pointat", "ring": r.ring, "closed": true, "i": i, "got": "other", "exp": r.ring[i], "map": mp.Name})
							}
						}
					}
					// a closing vertex that repeats the first one with a zero of the other sign is still a repetition (-0 = 0): the
					// segment count of the closed series does not change (identity map only: the zero must stay a zero)
					if mp.Name == "id" && n >= 2 && r.ring[n-1][0] == r.ring[0][0] && r.ring[n-1][1] == r.ring[0][1] && (r.ring[0][0] == 0 || r.ring[0][1] == 0) {
						p0 := append([]geometry.Point{}, pts...)
						if r.ring[0][0] == 0 {
							p0[n-1].X = math.Copysign(0, -1)
						}
						if r.ring[0][1] == 0 {
							p0[n-1].Y = math.Copysign(0, -1)
						}
						le++
						if got := geometry.NewPoly(p0, nil, &opts).Exterior.NumSegments(); got != len(r.segsClosed) {
							bad(obj{"op": "nseg", "ring": r.ring, "closed": true, "got": got, "exp": len(r.segsClosed), "map": mp.Name, "index": ci, "enc": "closing vertex spelled with -0"})
						}
					}
					// open series as given
					line := geometry.NewLine(pts, &opts)
					le += 2
					if got := line.NumSegments(); got != len(r.segsOpen) {
						bad(obj{"op": "nseg", "ring": r.ring, "closed": false, "got": got, "exp": len(r.segsOpen), "map": mp.Name, "index": ci})
					} else {
						for i := 0; i < got; i++ {
							s := line.SegmentAt(i)
							e := r.segsOpen[i]
							if s.A != mp.P(e[0][0], e[0][1]) || s.B != mp.P(e[1][0], e[1][1]) {
								bad(obj{"op": "seg", "ring": r.ring, "closed": false, "i": i, "got": "other", "exp": e, "map": mp.Name, "index": ci})
							}
						}
					}
					if got := line.Empty(); got != (r.emptyO == 1) {
						bad(obj{"op": "empty", "ring": r.ring, "closed": false, "got": got, "exp": r.emptyO == 1, "map": mp.Name, "index": ci})
					}
					if r.convex < 0 {
						continue
					}
					// convexity / winding under every re-encoding of the same ring
					type enc struct {
						name string
						ring [][]int
						flip bool
					}
					encs := []enc{{"asis", r.ring, false}}
					if n >= 3 && !(r.ring[n-1][0] == r.ring[0][0] && r.ring[n-1][1] == r.ring[0][1]) {
						for k := 1; k < n; k++ {
							encs = append(encs, enc{fmt.Sprintf("rot%d", k), rot(r.ring, k), false})
						}
						encs = append(encs, enc{"close", append(append([][]int{}, r.ring...), r.ring[0]), false})
						encs = append(encs, enc{"rot1+close", append(rot(r.ring, 1), r.ring[1%n]), false})
						encs = append(encs, enc{"rev", rev(r.ring), true})
					}
					for _, en := range encs {
						p2 := geometry.NewPoly(mapPts(mp, en.ring), nil, &opts)
						le += 2
						if got := p2.Exterior.Convex(); got != (r.convex == 1) {
							bad(obj{"op": "convex", "ring": en.ring, "got": got, "exp": r.convex == 1, "enc": en.name, "map": mp.Name, "index": ci})
						}
						if !en.flip {
							if got := p2.Exterior.Clockwise(); got != (r.cw == 1) {
								bad(obj{"op": "clockwise", "ring": en.ring, "got": got, "exp": r.cw == 1, "enc": en.name, "map": mp.Name, "index": ci})
							}
							if got := p2.Clockwise(); got != (r.cw == 1) {
								bad(obj{"op": "clockwise", "ring": en.ring, "got": got, "exp": r.cw == 1, "enc": en.name + "/Poly.Clockwise", "map": mp.Name, "index": ci})
							}
						}
					}
				}
			}
			mu.Lock()
			evals += le
			mism += lm
			rows += lr
			mu.Unlock()
		}()
	}
	for _, cf := range splitComma(args[0]) {
		if err := readLines(cf, func(line []byte) error {
			work <- append([]byte{}, line...)
			return nil
		}); err != nil {
			return err
		}
	}
	close(work)
	wg.Wait()

	// ---- recorded random trace
	recorded := 0
	for k := 0; k < nrandom; k++ {
		ring := randomRing(rng)
		opts := indexConfigs[rng.Intn(len(indexConfigs))]
		mp := maps[rng.Intn(len(maps))]
		if rng.Intn(4) == 0 {
			ring = append(ring, ring[0])
		}
		pts := mapPts(mp, ring)
		poly := geometry.NewPoly(pts, nil, &opts)
		ser := poly.Exterior
		ev.Emit(obj{"op": "convex", "ring": ring, "got": ser.Convex(), "map": mp.Name, "src": "rec"})
		ev.Emit(obj{"op": "clockwise", "ring": ring, "got": ser.Clockwise(), "map": mp.Name, "src": "rec"})
		ev.Emit(obj{"op": "nseg", "ring": ring, "closed": true, "got": ser.NumSegments(), "map": mp.Name, "src": "rec"})
		ev.Emit(obj{"op": "empty", "ring": ring, "closed": true, "got": ser.Empty(), "map": mp.Name, "src": "rec"})
		line := geometry.NewLine(pts, &opts)
		ev.Emit(obj{"op": "nseg", "ring": ring, "closed": false, "got": line.NumSegments(), "map": mp.Name, "src": "rec"})
		recorded += 5
	}
	printJSON(obj{"rows": rows, "maps": len(maps), "evaluations": evals, "mismatches": mism, "recorded": recorded, "events": ev.N})
	return nil
}

func splitComma(s string) []string {
	var out []string
	cur := ""
	for _, c := range s {
		if c == ',' {
			out = append(out, cur)
			cur = ""
		} else {
			cur += string(c)
		}
	}
	return append(out, cur)
}

// randomRing draws a ring from several families (convex hull-ish polygons
// with collinear and repeated vertices, stars, random walks).
func randomRing(rng *rand.Rand) [][]int {
	switch rng.Intn(6) {
	case 5: // few distinct vertices, each repeated 1..4 times in a row (runs of repetitions at corners)
		n := 3 + rng.Intn(4)
		var r [][]int
		for i := 0; i < n; i++ {
			p := []int{rng.Intn(5), rng.Intn(5)}
			for k := []int{1, 1, 2, 3, 4}[rng.Intn(5)]; k > 0; k-- {
				r = append(r, p)
			}
		}
		return r
	case 0: // random points
		n := 3 + rng.Intn(8)
		r := make([][]int, n)
		for i := range r {
			r[i] = []int{rng.Intn(41) - 20, rng.Intn(41) - 20}
		}
		return r
	case 1, 2: // convex polygon from sorted edge vectors, then decorate
		dirs := [][]int{{3, 0}, {2, 1}, {1, 2}, {0, 3}, {-1, 2}, {-2, 1}, {-3, 0}, {-2, -1}, {-1, -2}, {0, -3}, {1, -2}, {2, -1}}
		var r [][]int
		x, y := rng.Intn(11)-5, rng.Intn(11)-5
		start := rng.Intn(len(dirs))
		for i := 0; i < len(dirs); i++ {
			d := dirs[(start+i)%len(dirs)]
			if rng.Intn(3) == 0 {
				continue
			}
			reps := 1 + rng.Intn(2) // collinear run
			for k := 0; k < reps; k++ {
				r = append(r, []int{x, y})
				if rng.Intn(6) == 0 {
					r = append(r, []int{x, y}) // repeated vertex
				}
				x += d[0]
				y += d[1]
			}
		}
		if len(r) < 3 {
			return [][]int{{0, 0}, {4, 0}, {0, 4}}
		}
		// the walk is not closed in general; that is fine (any vertex sequence is a ring)
		if rng.Intn(2) == 0 {
			return rev(r)
		}
		return r
	case 3: // star: alternate radii
		n := 3 + rng.Intn(4)
		out := [][]int{}
		dirs := [][]int{{4, 0}, {3, 3}, {0, 4}, {-3, 3}, {-4, 0}, {-3, -3}, {0, -4}, {3, -3}}
		for i := 0; i < 2*n && i < len(dirs); i++ {
			d := dirs[i]
			m := 1 + (i%2)*rng.Intn(3)
			out = append(out, []int{d[0] * m, d[1] * m})
		}
		return rot(out, rng.Intn(len(out)))
	default: // tiny lattice with many coincidences
		n := 3 + rng.Intn(6)
		r := make([][]int, n)
		for i := range r {
			r[i] = []int{rng.Intn(4), rng.Intn(4)}
		}
		return r
	}
}

func init() {
	commands["c18one"] = func(args []string) error {
		var e struct {
			Op     string
			Ring   [][]int
			Closed *bool
			I      int
		}
		if err := json.Unmarshal([]byte(args[0]), &e); err != nil {
			return err
		}
		closed := e.Closed == nil || *e.Closed
		pts := mapPts(Identity, e.Ring)
		var ser geometry.Series
		if closed {
			ser = geometry.NewPoly(pts, nil, &indexConfigs[0]).Exterior
		} else {
			ser = geometry.NewLine(pts, &indexConfigs[0])
		}
		var got interface{}
		switch e.Op {
		case "convex":
			got = ser.Convex()
		case "clockwise":
			got = ser.Clockwise()
		case "nseg":
			got = ser.NumSegments()
		case "empty":
			got = ser.Empty()
		case "seg":
			s := ser.SegmentAt(e.I)
			got = [][]int{{int(s.A.X), int(s.A.Y)}, {int(s.B.X), int(s.B.Y)}}
		}
		printJSON(obj{"got": got})
		return nil
	}
}
