package main

import (
	"encoding/json"
	"fmt"

	"github.com/tidwall/geojson"
	"github.com/tidwall/geojson/geometry"
)

// Shape mirrors the tuple encoding of spec/Planar.tla:
//
//	["pt",p]  ["rect",min,max]  ["line",pts]  ["poly",ext,holes]
type Shape struct {
	Kind  string
	P     []int
	Min   []int
	Max   []int
	Pts   [][]int   // line
	Ext   [][]int   // poly exterior
	Holes [][][]int // poly holes
}

func parseShape(raw json.RawMessage) (Shape, error) {
	var parts []json.RawMessage
	var s Shape
	if err := json.Unmarshal(raw, &parts); err != nil {
		return s, err
	}
	if err := json.Unmarshal(parts[0], &s.Kind); err != nil {
		return s, err
	}
	var err error
	switch s.Kind {
	case "pt":
		err = json.Unmarshal(parts[1], &s.P)
	case "rect":
		if err = json.Unmarshal(parts[1], &s.Min); err == nil {
			err = json.Unmarshal(parts[2], &s.Max)
		}
	case "line":
		err = json.Unmarshal(parts[1], &s.Pts)
	case "poly":
		if err = json.Unmarshal(parts[1], &s.Ext); err == nil {
			err = json.Unmarshal(parts[2], &s.Holes)
		}
	default:
		err = fmt.Errorf("unknown shape kind %q", s.Kind)
	}
	return s, err
}

// JSON returns the tuple encoding (for events).
func (s Shape) JSON() interface{} {
	switch s.Kind {
	case "pt":
		return []interface{}{"pt", s.P}
	case "rect":
		return []interface{}{"rect", s.Min, s.Max}
	case "line":
		return []interface{}{"line", nonNil2(s.Pts)}
	default:
		h := s.Holes
		if h == nil {
			h = [][][]int{}
		}
		return []interface{}{"poly", nonNil2(s.Ext), h}
	}
}

func nonNil2(a [][]int) [][]int {
	if a == nil {
		return [][]int{}
	}
	return a
}

// Enc is a point-set preserving re-encoding of a series.
type Enc struct {
	Rot   int  // rotate the start vertex (rings only)
	Rev   bool // reverse direction
	Close bool // append the closing vertex (rings only, when absent)
	Open  bool // drop a repeated closing vertex (rings only, when present)
	Rep   bool // repeat every vertex
	Sub   int  // subdivide every segment Sub times (coordinates are scaled by 2^Sub first)
}

func (e Enc) String() string {
	return fmt.Sprintf("rot%d rev%v close%v open%v rep%v sub%d", e.Rot, e.Rev, e.Close, e.Open, e.Rep, e.Sub)
}

func ptEq(a, b []int) bool { return a[0] == b[0] && a[1] == b[1] }

func scalePts(r [][]int, k int) [][]int {
	out := make([][]int, len(r))
	for i, p := range r {
		out[i] = []int{p[0] << uint(k), p[1] << uint(k)}
	}
	return out
}

// encodeSeries applies e to a series; coordinates of the result are scaled
// by 2^e.Sub.
func encodeSeries(r [][]int, closed bool, e Enc) [][]int {
	out := append([][]int{}, r...)
	n := len(out)
	if closed && n >= 4 && e.Open && ptEq(out[0], out[n-1]) {
		out = out[:n-1]
		n--
	}
	if closed && n >= 3 && e.Rot > 0 && !ptEq(out[0], out[n-1]) {
		out = rot(out, e.Rot%n)
	}
	if e.Rev {
		out = rev(out)
	}
	if closed && e.Close && n >= 3 && !ptEq(out[0], out[n-1]) {
		out = append(out, out[0])
	}
	out = scalePts(out, e.Sub)
	for s := 0; s < e.Sub; s++ {
		n := len(out)
		var nx [][]int
		for i := 0; i < n; i++ {
			nx = append(nx, out[i])
			var b []int
			if i == n-1 {
				if !closed {
					break
				}
				b = out[0]
			} else {
				b = out[i+1]
			}
			nx = append(nx, []int{(out[i][0] + b[0]) / 2, (out[i][1] + b[1]) / 2})
		}
		out = nx
	}
	if e.Rep {
		var nx [][]int
		for _, p := range out {
			nx = append(nx, p, p)
		}
		out = nx
	}
	return out
}

// Encode re-encodes every series of the shape; all coordinates (including
// points and rects) are scaled by 2^e.Sub.
func (s Shape) Encode(e Enc) Shape {
	o := Shape{Kind: s.Kind}
	k := uint(e.Sub)
	switch s.Kind {
	case "pt":
		o.P = []int{s.P[0] << k, s.P[1] << k}
	case "rect":
		o.Min = []int{s.Min[0] << k, s.Min[1] << k}
		o.Max = []int{s.Max[0] << k, s.Max[1] << k}
	case "line":
		le := e
		le.Rot = 0
		o.Pts = encodeSeries(s.Pts, false, le)
	case "poly":
		o.Ext = encodeSeries(s.Ext, true, e)
		for _, h := range s.Holes {
			o.Holes = append(o.Holes, encodeSeries(h, true, e))
		}
	}
	return o
}

func (s Shape) NumPoints() int {
	switch s.Kind {
	case "line":
		return len(s.Pts)
	case "poly":
		n := len(s.Ext)
		for _, h := range s.Holes {
			n += len(h)
		}
		return n
	}
	return 1
}

// Geom builds the geometry-level value.
func (s Shape) Geom(mp Map, opts *geometry.IndexOptions) geometry.Geometry {
	switch s.Kind {
	case "pt":
		return mp.P(s.P[0], s.P[1])
	case "rect":
		return geometry.Rect{Min: mp.P(s.Min[0], s.Min[1]), Max: mp.P(s.Max[0], s.Max[1])}
	case "line":
		return geometry.NewLine(mapPts(mp, s.Pts), opts)
	default:
		var holes [][]geometry.Point
		for _, h := range s.Holes {
			holes = append(holes, mapPts(mp, h))
		}
		return geometry.NewPoly(mapPts(mp, s.Ext), holes, opts)
	}
}

// Object builds the GeoJSON leaf object over the geometry (variant selects
// SimplePoint for points).
func (s Shape) Object(mp Map, opts *geometry.IndexOptions, simple bool) geojson.Object {
	g := s.Geom(mp, opts)
	switch v := g.(type) {
	case geometry.Point:
		if simple {
			return geojson.NewSimplePoint(v)
		}
		return geojson.NewPoint(v)
	case geometry.Rect:
		return geojson.NewRect(v)
	case *geometry.Line:
		return geojson.NewLineString(v)
	case *geometry.Poly:
		return geojson.NewPolygon(v)
	}
	panic("unreachable")
}
