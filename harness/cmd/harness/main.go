// Command harness is the Go side of the /verif conformance machinery: it
// replays TLC-generated cases into the real tidwall/geojson code and records
// traces of real executions for TLC to validate.  It contains abstraction
// functions (float <-> lattice integer, object -> kind tree, bytes -> AST),
// never oracles: every expected answer comes from the TLA+ specification.
package main

import (
	"fmt"
	"os"
)

var commands = map[string]func(args []string) error{}

func main() {
	if len(os.Args) < 2 {
		fmt.Fprintln(os.Stderr, "usage: harness <command> args...")
		os.Exit(2)
	}
	cmd, ok := commands[os.Args[1]]
	if !ok {
		fmt.Fprintln(os.Stderr, "unknown command", os.Args[1])
		os.Exit(2)
	}
	if err := cmd(os.Args[2:]); err != nil {
		fmt.Fprintln(os.Stderr, "harness:", err)
		os.Exit(3)
	}
}
