package main

import (
	"bytes"
	"encoding/json"
	"fmt"
	"math"
	"strconv"
	"strings"

	"github.com/tidwall/geojson"
)

// c17 <objects.lines> <outdir> <seed>
func init() { commands["c17"] = c17 }

var memberTexts = []string{"", "{}", "{ }", `{"id":1}`, `{"properties":{"a":[1,2,null]},"id":"x"}`, ` {"a":1} `, `nonsense`, `[1,2]`, `"str"`, `{"feature":1}`,
	`{"a":1,"a":2}`, `{"b":{"type":"x","coordinates":[1]}}`, "{\n\t\"id\" : \"7\" ,\n \"bbox\":[1, 2, 3, 4]\n}", `{"properties":null}`, `{"id":1`, `{}x`}

// tokenizeSpecial maps output numbers back to the integers of WriterSpec (-0 -> 1000004; anything else non-integral -> -1)
func tokenizeSpecial(text string) (AST, error) {
	dec := json.NewDecoder(strings.NewReader(text))
	dec.UseNumber()
	var walk func() (AST, error)
	walk = func() (AST, error) {
		t, err := dec.Token()
		if err != nil {
			return AST{}, err
		}
		switch v := t.(type) {
		case json.Delim:
			if v == '[' {
				a := AST{Tag: "a"}
				for dec.More() {
					c, err := walk()
					if err != nil {
						return a, err
					}
					a.Items = append(a.Items, c)
				}
				_, err := dec.Token()
				return a, err
			}
			a := AST{Tag: "o"}
			for dec.More() {
				k, err := dec.Token()
				if err != nil {
					return a, err
				}
				c, err := walk()
				if err != nil {
					return a, err
				}
				a.Keys = append(a.Keys, k.(string))
				a.Items = append(a.Items, c)
			}
			_, err := dec.Token()
			return a, err
		case json.Number:
			f, err := strconv.ParseFloat(string(v), 64)
			if err != nil {
				return AST{}, err
			}
			if f == 0 && math.Signbit(f) {
				return AST{Tag: "n", N: 1000004}, nil
			}
			if f == math.Trunc(f) && math.Abs(f) < 1e6 {
				return AST{Tag: "n", N: int(f)}, nil
			}
			return AST{Tag: "n", N: -1}, nil
		case string:
			return AST{Tag: "s", S: v}, nil
		case bool:
			return AST{Tag: "t"}, nil
		}
		return AST{Tag: "z"}, nil
	}
	a, err := walk()
	if err != nil {
		return a, err
	}
	if _, err := dec.Token(); err == nil {
		return a, fmt.Errorf("trailing data")
	}
	return a, nil
}

func c17(args []string) error {
	if len(args) < 3 {
		return fmt.Errorf("usage: c17 objects outdir seed [docs.rows]")
	}
	var trees []Tree
	if err := readLines(args[0], func(line []byte) error {
		var raw []json.RawMessage
		if err := json.Unmarshal(line, &raw); err != nil {
			return err
		}
		t, err := parseTree(raw[1])
		if err != nil {
			return err
		}
		trees = append(trees, t)
		return nil
	}); err != nil {
		return err
	}
	ev, err := newEvents(args[1] + "/c17.events.ndjson")
	if err != nil {
		return err
	}
	defer ev.Close()
	n := 0
	var want string // when set: the bytes the object produced on its first serialisation, into a buffer that has been overwritten since
	record := func(t Tree, o geojson.Object, via string) {
		j := o.JSON()
		mj, _ := o.MarshalJSON()
		e := obj{"op": "ser", "tree": t.JSON(), "via": via, "output": clip(j, 500)}
		e["same4"] = j == o.String() && j == string(mj) && j == string(o.AppendJSON(nil))
		appendok, prefixok := true, true
		for _, prefix := range []string{"", "x", `{"k":`, strings.Repeat("p", 100)} {
			for _, spare := range []int{0, 1, 7, 64, 200, 5000} {
				buf := make([]byte, len(prefix), len(prefix)+spare)
				copy(buf, prefix)
				res := o.AppendJSON(buf)
				if string(res) != prefix+j {
					appendok = false
				}
				if !bytes.Equal(buf[:len(prefix)], []byte(prefix)) || (len(res) >= len(prefix) && string(res[:len(prefix)]) != prefix) {
					prefixok = false
				}
			}
		}
		if want != "" && j != want {
			appendok = false // the object kept a reference into the caller's buffer
		}
		// the slices AppendJSON(nil) and MarshalJSON return belong to the caller: overwriting them must not change later output
		b1 := o.AppendJSON(nil)
		b1 = append(b1[:0], bytes.Repeat([]byte("X"), cap(b1))...)
		b2, _ := o.MarshalJSON()
		b2 = append(b2[:0], bytes.Repeat([]byte("Y"), cap(b2))...)
		if o.JSON() != j || o.String() != j {
			appendok = false
		}
		e["appendok"], e["prefixok"] = appendok, prefixok
		e["valid"] = json.Valid([]byte(j))
		ast, terr := tokenizeSpecial(j)
		if terr != nil {
			e["valid"] = false
			ast = AST{Tag: "z"}
		}
		e["out"] = ast.JSON()
		ev.Emit(e)
		n++
	}
	// a fresh object whose FIRST serialisation goes into a caller-owned buffer with spare capacity that is then overwritten
	recordFresh := func(t Tree, o geojson.Object, via string) {
		buf := make([]byte, 3, 1<<16)
		copy(buf, "abc")
		res := o.AppendJSON(buf)
		want = string(res[3:])
		full := res[:cap(res)]
		for i := range full {
			full[i] = 'X'
		}
		record(t, o, via+"/first output went into a buffer that was overwritten afterwards")
		want = ""
	}
	for _, t := range trees {
		for ci := range indexConfigs[:2] {
			record(t, t.Build(SpecialMap, &indexConfigs[ci]), fmt.Sprintf("constructors/index%d", ci))
		}
		recordFresh(t, t.Build(SpecialMap, &indexConfigs[0]), "constructors/index0")
		if t.Kind != "Feature" {
			recordFresh(Tree{Kind: "Feature", Kids: []Tree{t}}, geojson.NewFeature(t.Build(SpecialMap, &indexConfigs[0]), `{"id":"f","properties":{"a":[1,2]}}`), "NewFeature")
		}
		// every member text on a Feature around this object
		inner := t
		if t.Kind == "Feature" {
			inner = t.Kids[0]
		}
		for mi, m := range memberTexts {
			if (mi+len(t.Kind))%4 != 0 && t.Kind != "Point" {
				continue
			}
			f := geojson.NewFeature(inner.Build(SpecialMap, &indexConfigs[0]), m)
			record(Tree{Kind: "Feature", Kids: []Tree{inner}}, f, fmt.Sprintf("NewFeature members=%q", m))
		}
	}
	// objects built through Parse (the accepted documents of the Gen_Doc universe): the entry points agree, append-only, valid JSON
	parsed := 0
	if len(args) > 3 && args[3] != "" {
		rows, err := loadDocs(args[3])
		if err != nil {
			return err
		}
		for _, r := range rows {
			if !r.l2acc {
				continue
			}
			for k := 0; k < 2; k++ {
				k := k
				text := ""
				func() {
					defer func() {
						if rec := recover(); rec != nil {
							ev.Emit(obj{"op": "ser2", "text": clip(text, 300), "output": "panic: " + fmt.Sprint(rec), "same4": false, "appendok": false, "prefixok": false, "valid": false, "isobject": false})
							parsed++
						}
					}()
					text = r.ast.Text(renderOpts{table: tokenTables[(k+r.b)%len(tokenTables)]})
					po := parseOptSets[(k+r.b)%len(parseOptSets)]
					o, perr := geojson.Parse(text, &po)
					if perr != nil {
						return
					}
					j := o.JSON()
					mj, _ := o.MarshalJSON()
					e := obj{"op": "ser2", "text": clip(text, 300), "output": clip(j, 400)}
					e["same4"] = j == o.String() && j == string(mj) && j == string(o.AppendJSON(nil))
					appendok, prefixok := true, true
					for _, prefix := range []string{"", `[1,`} {
						for _, spare := range []int{0, 3, 300} {
							buf := make([]byte, len(prefix), len(prefix)+spare)
							copy(buf, prefix)
							res := o.AppendJSON(buf)
							appendok = appendok && string(res) == prefix+j
							prefixok = prefixok && bytes.Equal(buf[:len(prefix)], []byte(prefix))
						}
					}
					e["appendok"], e["prefixok"] = appendok, prefixok
					e["valid"] = json.Valid([]byte(j))
					var top map[string]json.RawMessage
					e["isobject"] = json.Unmarshal([]byte(j), &top) == nil && top["type"] != nil
					ev.Emit(e)
					parsed++
				}()
			}
		}
	}
	printJSON(obj{"objects": len(trees), "serialisations": n, "parsed_objects_serialised": parsed, "events": ev.N})
	return nil
}
