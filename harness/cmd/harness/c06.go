package main

import (
	"encoding/json"
	"fmt"
	"math"
	"math/rand"
	"reflect"

	"github.com/tidwall/geojson"
	"github.com/tidwall/geojson/geometry"
)

// c06 <docs.rows> <outdir> <seed> <nrender>
//
// Records Parse -> JSON -> Parse round trips of every document the real Parse
// accepts, for Trace_C06.tla.
func init() { commands["c06"] = c06 }

var c06Opts = []geojson.ParseOptions{
	{IndexChildren: 64, IndexGeometry: 64, IndexGeometryKind: geometry.QuadTree},
	{IndexChildren: 1, IndexGeometry: 1, IndexGeometryKind: geometry.RTree},
	{IndexChildren: 0, IndexGeometry: 0, IndexGeometryKind: geometry.None, AllowSimplePoints: true},
	{IndexChildren: 2, IndexGeometry: 3, IndexGeometryKind: geometry.QuadTree, AllowRects: true, DisableCircleType: true},
	{IndexChildren: 64, IndexGeometry: 64, IndexGeometryKind: geometry.QuadTree, AllowSimplePoints: true, AllowRects: true, RequireValid: true},
}

func answers(o geojson.Object, table []float64) (out []interface{}) {
	defer func() {
		if r := recover(); r != nil {
			out = append(out, fmt.Sprint("panic:", r))
		}
	}()
	out = append(out, o.Empty(), o.NumPoints(), o.Valid())
	r := o.Rect()
	out = append(out, []float64{r.Min.X, r.Min.Y, r.Max.X, r.Max.Y})
	probes := []geojson.Object{
		geojson.NewPoint(geometry.Point{X: table[1], Y: table[1]}),
		geojson.NewPoint(geometry.Point{X: table[2], Y: table[3]}),
		geojson.NewRect(geometry.Rect{Min: geometry.Point{X: -1000, Y: -1000}, Max: geometry.Point{X: 1000, Y: 1000}}),
		geojson.NewRect(geometry.Rect{Min: geometry.Point{X: table[1], Y: table[1]}, Max: geometry.Point{X: table[3], Y: table[3]}}),
	}
	for _, p := range probes {
		out = append(out, o.Intersects(p), o.Contains(p), o.Within(p), p.Intersects(o))
	}
	return out
}

func c06(args []string) error {
	if len(args) != 4 {
		return fmt.Errorf("usage: c06 docs outdir seed nrender")
	}
	rows, err := loadDocs(args[0])
	if err != nil {
		return err
	}
	rows = append(rows, composedDocs(rows)...)
	seed, nrender := atoi(args[2]), atoi(args[3])
	ev, err := newEvents(args[1] + "/c06.events.ndjson")
	if err != nil {
		return err
	}
	defer ev.Close()
	panics, err := newEvents(args[1] + "/c06.panics.ndjson")
	if err != nil {
		return err
	}
	defer panics.Close()
	rng := rand.New(rand.NewSource(int64(seed)))
	trips, accepted := 0, 0
	seen := map[string]bool{}
	for _, r := range rows {
		for k := 0; k < nrender; k++ {
			k := k
			text := ""
			func() {
				defer func() { // a panic anywhere in Parse -> JSON -> Parse is reported with the text, not as a dead harness
					if rec := recover(); rec != nil {
						panics.Emit(obj{"op": "panic", "text": clip(text, 400), "msg": fmt.Sprint(rec)})
					}
				}()
				ro := renderOpts{table: tokenTables[k%len(tokenTables)]}
				if k >= len(tokenTables) {
					ro.rng, ro.spaces, ro.escape = rng, rng.Intn(2) == 0, rng.Intn(3) == 0
				}
				text = r.ast.Text(ro)
				po := c06Opts[(k+r.b)%len(c06Opts)]
				o, perr := geojson.Parse(text, &po)
				if perr != nil {
					return // C07 judges acceptance
				}
				accepted++
				out1 := o.JSON()
				key := fmt.Sprint(k%len(tokenTables), (k+r.b)%len(c06Opts), string(r.rawAST))
				if seen[key] {
					return
				}
				seen[key] = true
				e := obj{"op": "rt", "doc": r.rawAST, "b": r.b, "opts": (k + r.b) % len(c06Opts), "table": k % len(tokenTables), "text": clip(text, 6000), "output": clip(out1, 6000)}
				e["valid"] = json.Valid([]byte(out1))
				outAST, terr := tokenize(out1, ro.table)
				if terr != nil {
					e["valid"] = false
					outAST = AST{Tag: "z"}
				}
				e["out"] = outAST.JSON()
				e["members"] = []interface{}{"none"}
				if ms := o.Members(); ms != "" {
					if mast, merr := tokenize(ms, ro.table); merr == nil {
						e["members"] = mast.JSON()
					} else {
						e["members"] = []interface{}{"s", "unparsable: " + ms}
					}
				}
				z, isPoint := geojson.IsPoint(o)
				e["ispoint"] = isPoint
				e["z"] = []interface{}{"n", -1}
				for k, tv := range ro.table {
					if math.Float64bits(tv) == math.Float64bits(z) {
						e["z"] = []interface{}{"n", k}
						break
					}
				}
				if math.IsNaN(z) {
					e["z"] = []interface{}{"z"}
				}
				o2, perr2 := geojson.Parse(out1, &po)
				e["reparsed"] = perr2 == nil
				e["samekind"], e["fix"], e["sameans"] = false, false, false
				if perr2 == nil {
					e["samekind"] = reflect.TypeOf(o) == reflect.TypeOf(o2)
					e["fix"] = o2.JSON() == out1
					e["sameans"] = fmt.Sprint(answers(o, ro.table)) == fmt.Sprint(answers(o2, ro.table))
				}
				ev.Emit(e)
				trips++
			}()
		}
	}
	// zeros of both signs: -0 and 0 are equal numbers with different bits; a position written as -0 comes back as -0 wherever it
	// stands (also in the closing position of a ring whose first position has the other zero). Judged on the decoded numbers of input
	// and output (encoding/json keeps the sign of -0), position by position.
	zeroCases, zeroBad := 0, 0
	zs := []string{"0", "-0", "0.0", "-0.0", "-0e0"}
	var ztexts []string
	for i, a := range zs {
		for j, b := range zs {
			ztexts = append(ztexts,
				fmt.Sprintf(`{"type":"Polygon","coordinates":[[[%s,0],[1,0],[1,1],[%s,0]]]}`, a, b),
				fmt.Sprintf(`{"type":"Polygon","coordinates":[[[0,%s],[1,0],[1,1],[0,1],[0,%s]]]}`, a, b),
				fmt.Sprintf(`{"type":"Polygon","coordinates":[[[%s,%s],[1,%s],[1,1],[%s,1],[%s,%s]]]}`, a, b, b, b, b, a),
				fmt.Sprintf(`{"type":"LineString","coordinates":[[%s,%s],[%s,%s],[%s,0]]}`, a, b, b, a, a),
				fmt.Sprintf(`{"type":"MultiPolygon","coordinates":[[[[2,2],[3,2],[3,3],[2,2]]],[[[%s,0],[1,0],[1,1],[%s,0]],[[%s,%s],[0.5,0.25],[0.5,0.5],[%s,%s]]]]}`, a, b, a, b, b, a),
				fmt.Sprintf(`{"type":"Feature","geometry":{"type":"MultiPoint","coordinates":[[%s,%s,%s],[%s,%s]]},"properties":{"z":[%s,%s]}}`, a, b, a, b, a, a, b))
			_, _ = i, j
		}
	}
	var nums func(v interface{}, out *[]uint64)
	nums = func(v interface{}, out *[]uint64) {
		switch x := v.(type) {
		case float64:
			*out = append(*out, math.Float64bits(x))
		case []interface{}:
			for _, y := range x {
				nums(y, out)
			}
		}
	}
	coords := func(text string) []uint64 {
		var top map[string]interface{}
		if json.Unmarshal([]byte(text), &top) != nil {
			return nil
		}
		var out []uint64
		if g, ok := top["geometry"].(map[string]interface{}); ok {
			nums(g["coordinates"], &out)
		} else {
			nums(top["coordinates"], &out)
		}
		return out
	}
	for _, text := range ztexts {
		for oi := range c06Opts {
			po := c06Opts[oi]
			func() {
				defer func() {
					if rec := recover(); rec != nil {
						panics.Emit(obj{"op": "panic", "text": text, "msg": fmt.Sprint(rec)})
					}
				}()
				o, err := geojson.Parse(text, &po)
				if err != nil {
					return
				}
				zeroCases++
				out := o.JSON()
				if !reflect.DeepEqual(coords(text), coords(out)) {
					zeroBad++
					if zeroBad <= 40 {
						panics.Emit(obj{"op": "zero-sign", "text": text, "msg": "the output " + out + " does not carry every ordinate bit for bit (options set " + fmt.Sprint(oi) + ")"})
					}
				}
			}()
		}
	}
	printJSON(obj{"zero_sign_cases": zeroCases, "zero_sign_mismatches": zeroBad, "docs": len(rows), "parses_accepted": accepted, "round_trips_recorded": trips, "events": ev.N})
	return nil
}

// composedDocs: every accepted Point / Polygon document (the two types whose representation depends on the options)
// once more as the geometry of a Feature, twice in a GeometryCollection and as a Feature in a FeatureCollection: a
// writer that is right for a top-level object can be wrong for the same object inside another one.
func composedDocs(rows []docRow) []docRow {
	str := func(v string) AST { return AST{Tag: "s", S: v} }
	object := func(keys []string, items []AST) AST { return AST{Tag: "o", Keys: keys, Items: items} }
	var out []docRow
	for _, r := range rows {
		if r.verdict != "acc" || r.ast.Tag != "o" {
			continue
		}
		typ := ""
		for i, k := range r.ast.Keys {
			if k == "type" && r.ast.Items[i].Tag == "s" {
				typ = r.ast.Items[i].S
			}
		}
		if typ != "Point" && typ != "Polygon" {
			continue
		}
		feature := object([]string{"type", "geometry", "properties"}, []AST{str("Feature"), r.ast, object(nil, nil)})
		for _, w := range []AST{
			feature,
			object([]string{"type", "geometries"}, []AST{str("GeometryCollection"), {Tag: "a", Items: []AST{r.ast, r.ast}}}),
			object([]string{"features", "type"}, []AST{{Tag: "a", Items: []AST{feature}}, str("FeatureCollection")}),
		} {
			raw, err := json.Marshal(w.JSON())
			if err != nil {
				continue
			}
			out = append(out, docRow{b: r.b, ast: w, rawAST: raw, verdict: "acc"})
		}
	}
	return out
}
