package main

import (
	"bytes"
	"encoding/json"
	"fmt"
	"math"
	"math/rand"
	"reflect"
	"strconv"
	"strings"

	"github.com/tidwall/geojson"
)

// lex <rows.lines> <outdir> <seed> <nrender>
//
// Replays the texts generated from the state graph of the JSON automaton (spec/JsonLex.tla, Gen_Lex.tla): every row is a
// fragment (sequence of byte classes) with the host context it was generated for and the model's verdict on host+fragment.
func init() { commands["lex"] = lex }

// representative bytes of every atom; index 0 is the canonical spelling
var atomReps = map[int][]string{
	1: {"{"}, 2: {"}"}, 3: {"["}, 4: {"]"}, 5: {":"}, 6: {","}, 7: {"\""}, 8: {"\\"}, 9: {" "},
	10: {"0"}, 11: {"1", "2", "5", "7", "9"}, 12: {"-"}, 13: {"+"}, 14: {"."}, 15: {"e"},
	16: {"t"}, 17: {"r"}, 18: {"u"}, 19: {"f"}, 20: {"a"}, 21: {"l"}, 22: {"s"}, 23: {"n"}, 24: {"b"}, 25: {"/"},
	26: {"\x01", "\x00", "\x08", "\x0b", "\x0c", "\x1f"},
	27: {"\n", "\t", "\r"},
	28: {"x", "Z", "_", "'", "é", "€", "\x7f", ";", "(", "#", "*", "T", "N", "\xff", " ", "=", "<", "&", "%", "$", "!", "~", "`", "@", "^", "|", "?", ">"},
	29: {"c", "d", "A", "B", "C", "D", "F"},
	30: {"E"},
}

type lexHost struct {
	ctx       int
	name      string
	pre, post string
	look      []string // path to the object holding the fragment's members ("" = root)
}

var lexHosts = []lexHost{
	{1, "whole-text", "", "", nil},
	{2, "point-last-member", `{"type":"Point","coordinates":[1,2],"x":`, `}`, []string{}},
	{2, "feature-last-member", `{"type":"Feature","geometry":{"type":"Point","coordinates":[1,2]},"properties":{},"x":`, `}`, []string{}},
	{2, "collection-last-member", `{"type":"GeometryCollection","geometries":[{"type":"Point","coordinates":[1,2]}],"x":`, `}`, []string{}},
	{3, "coordinate", `{"type":"Point","coordinates":[`, `,2]}`, nil},
	{4, "property", `{"type":"Feature","geometry":{"type":"Point","coordinates":[1,2]},"properties":{"k":`, `}}`, []string{"properties"}},
	{4, "geometry-member", `{"type":"Feature","properties":null,"geometry":{"type":"Polygon","coordinates":[[[0,0],[1,0],[1,1],[0,0]]],"x":`, `}}`, []string{"geometry"}},
	{6, "coordinate", `{"type":"Point","coordinates":[`, `,2]}`, nil},
	{7, "coordinate", `{"type":"Point","coordinates":[`, `,2]}`, nil},
	{7, "linestring-y", `{"type":"LineString","coordinates":[[1,2],[3,`, `],[5,6]]}`, nil},
	{7, "polygon-x", `{"type":"Polygon","coordinates":[[[0,0],[`, `,0],[1,1],[0,0]]]}`, nil},
	{6, "linestring-y", `{"type":"LineString","coordinates":[[1,2],[3,`, `],[5,6]]}`, nil},
	{5, "point-first-member", `{"x":`, `,"type":"Point","coordinates":[1,2]}`, []string{}},
	{5, "linestring-first-member", `{"x":`, `,"coordinates":[[1,2],[3,4]],"type":"LineString"}`, []string{}},
}

func decodeNum(text string) (interface{}, error) {
	d := json.NewDecoder(strings.NewReader(text))
	d.UseNumber()
	var v interface{}
	err := d.Decode(&v)
	return v, err
}

// numbers are compared by value (the library may respell a foreign number), everything else exactly
func looseEqual(a, b interface{}) bool {
	switch x := a.(type) {
	case json.Number:
		y, ok := b.(json.Number)
		if !ok {
			return false
		}
		fx, _ := strconv.ParseFloat(string(x), 64)
		fy, _ := strconv.ParseFloat(string(y), 64)
		return fx == fy || string(x) == string(y)
	case map[string]interface{}:
		y, ok := b.(map[string]interface{})
		if !ok || len(x) != len(y) {
			return false
		}
		for k, v := range x {
			w, ok := y[k]
			if !ok || !looseEqual(v, w) {
				return false
			}
		}
		return true
	case []interface{}:
		y, ok := b.([]interface{})
		if !ok || len(x) != len(y) {
			return false
		}
		for i := range x {
			if !looseEqual(x[i], y[i]) {
				return false
			}
		}
		return true
	}
	return reflect.DeepEqual(a, b)
}

func dig(v interface{}, path []string) interface{} {
	for _, k := range path {
		m, ok := v.(map[string]interface{})
		if !ok {
			return nil
		}
		v = m[k]
	}
	return v
}

var geoKeys = map[string]bool{"type": true, "coordinates": true, "geometry": true, "geometries": true, "features": true, "properties": true, "bbox": true, "id": true}

func lexParse(text string, opts *geojson.ParseOptions) (o geojson.Object, err error, panicked string) {
	defer func() {
		if r := recover(); r != nil {
			panicked = fmt.Sprint(r)
		}
	}()
	o, err = geojson.Parse(text, opts)
	return
}

func lex(args []string) error {
	if len(args) != 4 {
		return fmt.Errorf("usage: lex rows outdir seed nrender")
	}
	seed, nrender := atoi(args[2]), atoi(args[3])
	ev, err := newEvents(args[1] + "/lex.events.ndjson")
	if err != nil {
		return err
	}
	defer ev.Close()
	rng := rand.New(rand.NewSource(int64(seed)))
	def := *geojson.DefaultParseOptions
	alt := def
	alt.AllowSimplePoints, alt.AllowRects, alt.RequireValid, alt.IndexGeometry = true, true, true, 1
	optsets := []*geojson.ParseOptions{nil, &alt}
	evals, mism, l1drift, rows := 0, 0, 0, 0
	by, byProp := map[string]int{}, map[string]int{"C06": 0, "C07": 0}
	var driftEx []string
	err = readLines(args[0], func(line []byte) error {
		var raw []json.RawMessage
		if err := json.Unmarshal(line, &raw); err != nil {
			return err
		}
		var tag string
		json.Unmarshal(raw[0], &tag)
		if tag != "LEX" {
			return nil
		}
		var ctx int
		var atoms []int
		var valid bool
		json.Unmarshal(raw[1], &ctx)
		json.Unmarshal(raw[2], &atoms)
		json.Unmarshal(raw[3], &valid)
		rows++
		for k := 0; k < nrender; k++ {
			var fb strings.Builder
			for _, a := range atoms {
				reps := atomReps[a]
				if k == 0 {
					fb.WriteString(reps[0])
				} else {
					fb.WriteString(reps[rng.Intn(len(reps))])
				}
			}
			frag := fb.String()
			for _, h := range lexHosts {
				if h.ctx != ctx {
					continue
				}
				text := h.pre + frag + h.post
				if json.Valid([]byte(text)) != valid { // the L1 automaton and encoding/json disagree: the model is wrong
					l1drift++
					if len(driftEx) < 5 {
						driftEx = append(driftEx, strconv.QuoteToASCII(text))
					}
					continue
				}
				// what the property says about this text
				exp := "rej"
				var wantX float64
				if valid {
					switch ctx {
					case 1:
						exp = "rej" // valid JSON, but not an object with a "type"
					case 2, 4, 5:
						exp = "acc"
					case 3, 6, 7:
						exp = "uns"
						if f, err := strconv.ParseFloat(strings.Trim(frag, " \t\r\n"), 64); err == nil && !math.IsInf(f, 0) {
							exp, wantX = "acc", f
						}
					}
				}
				by[fmt.Sprintf("ctx%d/%v/%s", ctx, valid, exp)]++
				for oi, po := range optsets {
					evals++
					o, perr, pan := lexParse(text, po)
					got, why := "acc", ""
					switch {
					case pan != "":
						got, why = "panic", pan
					case perr != nil && o == nil:
						got = "rej"
					case perr != nil && o != nil:
						got, why = "both", "error and object returned together"
					case o == nil:
						got, why = "neither", "neither error nor object"
					}
					bad, prop := false, "C07"
					switch {
					case got == "panic" || got == "both" || got == "neither":
						bad = true
					case exp == "uns":
					case (ctx == 3 || ctx == 6 || ctx == 7) && po != nil && po.RequireValid && math.Abs(wantX) > 90: // out of range under RequireValid: rejection is the option's doing
					case got != exp:
						bad = true
						why = map[string]string{"rej": "the text is not valid JSON or lacks what its type requires, it must be rejected", "acc": "the text is a well-formed GeoJSON object with foreign members, it must be accepted"}[exp]
						if ctx == 1 {
							why = "a text without a string \"type\" member must be rejected"
						}
					case got == "acc" && (ctx == 3 || ctx == 6 || ctx == 7):
						gotX := o.Center().X
						if ls, ok := o.(*geojson.LineString); ok {
							gotX = ls.Base().PointAt(1).Y
						}
						if pg, ok := o.(*geojson.Polygon); ok {
							gotX = pg.Base().Exterior.PointAt(1).X
						}
						if math.Float64bits(gotX) != math.Float64bits(wantX) {
							bad, why = true, fmt.Sprintf("ordinate = %v, a standard decoder reads %v", gotX, wantX)
						}
					case got == "acc":
						prop = "C06"
						out := o.JSON()
						if !json.Valid([]byte(out)) {
							bad, why = true, "output is not valid JSON: "+strconv.QuoteToASCII(out)
							break
						}
						if _, perr2, pan2 := lexParse(out, po); perr2 != nil || pan2 != "" {
							bad, why = true, "output is not accepted again: "+strconv.QuoteToASCII(out)
							break
						}
						vin, e1 := decodeNum(text)
						vout, e2 := decodeNum(out)
						if e1 != nil || e2 != nil {
							break
						}
						min, _ := dig(vin, h.look).(map[string]interface{})
						mout, _ := dig(vout, h.look).(map[string]interface{})
						for key, v := range min {
							if geoKeys[key] && len(h.look) == 0 || (len(h.look) > 0 && h.look[0] == "geometry" && geoKeys[key]) {
								continue
							}
							if w, ok := mout[key]; !ok || !looseEqual(v, w) {
								bad, why = true, fmt.Sprintf("foreign member %q is not carried to the output %s", key, strconv.QuoteToASCII(out))
								break
							}
						}
					}
					if bad {
						mism++
						byProp[prop]++
						if byProp[prop] <= 300 {
							ev.Emit(obj{"op": "lex", "ctx": ctx, "host": h.name, "atoms": atoms, "text": strconv.QuoteToASCII(text), "valid_json_L1": valid,
								"exp": exp, "got": got, "why": why, "opts": oi, "prop": prop})
						}
					}
				}
			}
		}
		return nil
	})
	if err != nil {
		return err
	}
	_ = bytes.MinRead
	printJSON(obj{"rows": rows, "evaluations": evals, "mismatches": mism, "mismatches_by_property": byProp, "l1_vs_encoding_json_drift": l1drift, "drift_examples": driftEx, "by_class": by})
	return nil
}
