package main

import (
	"bufio"
	"encoding/json"
	"fmt"
	"math"
	"math/rand"
	"os"
	"strconv"
	"sync"

	"github.com/tidwall/geojson/geometry"
)

// Map is an orbit map x -> S*x+TX, y -> S*y+TY with S a power of two and
// TX, TY multiples of S: float arithmetic on the images of small lattice
// integers is exact (assumption A-float), so every answer must equal the
// lattice answer computed by TLC.
type Map struct {
	Name   string
	S      float64
	TX, TY float64
}

func (m Map) P(x, y int) geometry.Point {
	if m.Name == "special" {
		return geometry.Point{X: specialFloat(x), Y: specialFloat(y)}
	}
	return geometry.Point{X: m.S*float64(x) + m.TX, Y: m.S*float64(y) + m.TY}
}

// SpecialMap interprets the integers 1000001..1000004 of spec/WriterSpec.tla as NaN, +Inf, -Inf, -0.
var SpecialMap = Map{"special", 1, 0, 0}

func specialFloat(v int) float64 {
	switch v {
	case 1000001:
		return math.NaN()
	case 1000002:
		return math.Inf(1)
	case 1000003:
		return math.Inf(-1)
	case 1000004:
		return math.Copysign(0, -1)
	}
	return float64(v)
}

var Identity = Map{"id", 1, 0, 0}

// fixedMaps are always applied; extent is the largest lattice coordinate.
func fixedMaps(extent int) []Map {
	e := float64(extent)
	return []Map{
		Identity,
		{"2^-20", math.Ldexp(1, -20), 0, 0},
		{"2^8+far", 256, 1048576 - 256*e, -1048576},
		{"neg", 1, -math.Floor(e/2) - 1, -math.Floor(e / 2)},
		{"2^-10+1000", math.Ldexp(1, -10), 1000, -1000},
	}
}

// seededMaps draws n further orbit maps.
func seededMaps(rng *rand.Rand, extent, n int) []Map {
	var out []Map
	for i := 0; i < n; i++ {
		k := rng.Intn(29) - 20 // -20..8
		s := math.Ldexp(1, k)
		lim := (1048576 - s*float64(extent)) / s // |t/s| bound so that |s*x+t| <= 2^20
		if lim > 1<<30 {
			lim = 1 << 30
		}
		tx := s * float64(rng.Int63n(int64(2*lim)+1)-int64(lim))
		ty := s * float64(rng.Int63n(int64(2*lim)+1)-int64(lim))
		out = append(out, Map{fmt.Sprintf("2^%d%+g%+g", k, tx, ty), s, tx, ty})
	}
	return out
}

// readLines streams the JSON lines of a case file.
func readLines(path string, fn func(line []byte) error) error {
	f, err := os.Open(path)
	if err != nil {
		return err
	}
	defer f.Close()
	sc := bufio.NewScanner(f)
	sc.Buffer(make([]byte, 1<<20), 1<<28)
	for sc.Scan() {
		if err := fn(sc.Bytes()); err != nil {
			return err
		}
	}
	return sc.Err()
}

// Events is a concurrency-safe ndjson writer.
type Events struct {
	mu sync.Mutex
	w  *bufio.Writer
	f  *os.File
	N  int
}

func newEvents(path string) (*Events, error) {
	f, err := os.Create(path)
	if err != nil {
		return nil, err
	}
	return &Events{w: bufio.NewWriterSize(f, 1<<20), f: f}, nil
}

func (e *Events) Emit(v interface{}) {
	b, err := json.Marshal(v)
	if err != nil {
		panic(err)
	}
	e.mu.Lock()
	e.w.Write(b)
	e.w.WriteByte('\n')
	e.N++
	e.mu.Unlock()
}

func (e *Events) Close() error {
	e.w.Flush()
	return e.f.Close()
}

func atoi(s string) int {
	n, err := strconv.Atoi(s)
	if err != nil {
		panic(err)
	}
	return n
}

func b2i(b bool) int {
	if b {
		return 1
	}
	return 0
}

func printJSON(v interface{}) {
	b, _ := json.Marshal(v)
	fmt.Println(string(b))
}

type obj = map[string]interface{}

func pt(x, y int) []int { return []int{x, y} }
