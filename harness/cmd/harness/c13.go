package main

import (
	"encoding/json"
	"fmt"
	"math"
	"math/rand"

	"github.com/tidwall/geojson"
	"github.com/tidwall/geojson/geo"
	"github.com/tidwall/geojson/geometry"
)

// c13 <circles.lines> <outdir> <seed> <tier>
func init() { commands["c13"] = c13 }

const c13NP = 720
const earthR = 6371e3

var stepU = math.Pi * earthR / (c13NP / 2)

// ring maps a lattice index to lat/lon on one great circle.
type sphRing struct {
	name string
	pos  func(i int) geometry.Point // X = lon, Y = lat
}

func normLon(l float64) float64 {
	for l > 180 {
		l -= 360
	}
	for l <= -180 {
		l += 360
	}
	return l
}

func meridianRing(L float64) sphRing {
	return sphRing{fmt.Sprintf("meridian %g/%g", L, normLon(L+180)), func(i int) geometry.Point {
		th := float64(i) * 360 / c13NP
		switch {
		case th <= 90:
			return geometry.Point{X: L, Y: th}
		case th <= 270:
			return geometry.Point{X: normLon(L + 180), Y: 180 - th}
		default:
			return geometry.Point{X: L, Y: th - 360}
		}
	}}
}

var equatorRing = sphRing{"equator", func(i int) geometry.Point {
	return geometry.Point{X: float64(i)*360/c13NP - 180, Y: 0}
}}

func c13(args []string) error {
	if len(args) != 4 {
		return fmt.Errorf("usage: c13 circles outdir seed tier")
	}
	seed, tier := atoi(args[2]), args[3]
	ev, err := newEvents(args[1] + "/c13.events.ndjson")
	if err != nil {
		return err
	}
	defer ev.Close()
	rng := rand.New(rand.NewSource(int64(seed)))
	rings := []sphRing{meridianRing(0), meridianRing(37.5), meridianRing(-180), meridianRing(179.5), equatorRing}
	type row struct {
		c, m  int
		bits  []int
		pairs [][]int
	}
	var rows []row
	if err := readLines(args[0], func(line []byte) error {
		var raw []json.RawMessage
		if err := json.Unmarshal(line, &raw); err != nil {
			return err
		}
		var r row
		json.Unmarshal(raw[1], &r.c)
		json.Unmarshal(raw[2], &r.m)
		json.Unmarshal(raw[3], &r.bits)
		json.Unmarshal(raw[4], &r.pairs)
		rows = append(rows, r)
		return nil
	}); err != nil {
		return err
	}
	evals, mism := 0, 0
	type ptCall struct {
		name string
		fn   func(c *geojson.Circle, p geometry.Point) bool
	}
	calls := []ptCall{
		{"Circle.Contains(Point)", func(c *geojson.Circle, p geometry.Point) bool { return c.Contains(geojson.NewPoint(p)) }},
		{"Circle.Contains(SimplePoint)", func(c *geojson.Circle, p geometry.Point) bool { return c.Contains(geojson.NewSimplePoint(p)) }},
		{"Point.Within(Circle)", func(c *geojson.Circle, p geometry.Point) bool { return geojson.NewPoint(p).Within(c) }},
		{"SimplePoint.Within(Circle)", func(c *geojson.Circle, p geometry.Point) bool { return geojson.NewSimplePoint(p).Within(c) }},
		{"Circle.Intersects(Point)", func(c *geojson.Circle, p geometry.Point) bool { return c.Intersects(geojson.NewPoint(p)) }},
		{"Circle.Intersects(SimplePoint)", func(c *geojson.Circle, p geometry.Point) bool { return c.Intersects(geojson.NewSimplePoint(p)) }},
		{"Point.Intersects(Circle)", func(c *geojson.Circle, p geometry.Point) bool { return geojson.NewPoint(p).Intersects(c) }},
		{"SimplePoint.Intersects(Circle)", func(c *geojson.Circle, p geometry.Point) bool { return geojson.NewSimplePoint(p).Intersects(c) }},
		{"Circle.Intersects(Feature(Point))", func(c *geojson.Circle, p geometry.Point) bool {
			return c.Intersects(geojson.NewFeature(geojson.NewPoint(p), ""))
		}},
		{"Feature(Point).Intersects(Circle)", func(c *geojson.Circle, p geometry.Point) bool {
			return geojson.NewFeature(geojson.NewPoint(p), `{"id":1}`).Intersects(c)
		}},
		{"Circle.Contains(Feature(Point))", func(c *geojson.Circle, p geometry.Point) bool {
			return c.Contains(geojson.NewFeature(geojson.NewSimplePoint(p), ""))
		}},
		{"Circle.Contains(MultiPoint[p,p])", func(c *geojson.Circle, p geometry.Point) bool {
			return c.Contains(geojson.NewMultiPoint([]geometry.Point{p, p}))
		}},
		{"Circle.Intersects(MultiPoint[p])", func(c *geojson.Circle, p geometry.Point) bool {
			return c.Intersects(geojson.NewMultiPoint([]geometry.Point{p}))
		}},
		{"Feature(Circle).Contains(Point)", func(c *geojson.Circle, p geometry.Point) bool {
			return geojson.NewFeature(c, "").Contains(geojson.NewPoint(p))
		}},
		{"Circle.Contains(Feature(Feature(Point)))", func(c *geojson.Circle, p geometry.Point) bool {
			return c.Contains(geojson.NewFeature(geojson.NewFeature(geojson.NewPoint(p), ""), `{"id":2}`))
		}},
		{"Circle.Intersects(Feature(Feature(SimplePoint)))", func(c *geojson.Circle, p geometry.Point) bool {
			return c.Intersects(geojson.NewFeature(geojson.NewFeature(geojson.NewSimplePoint(p), ""), ""))
		}},
		{"Feature(Point).Within(Circle)", func(c *geojson.Circle, p geometry.Point) bool {
			return geojson.NewFeature(geojson.NewPoint(p), "").Within(c)
		}},
		{"Feature(Feature(Circle)).Intersects(Feature(Point))", func(c *geojson.Circle, p geometry.Point) bool {
			return geojson.NewFeature(geojson.NewFeature(c, ""), "").Intersects(geojson.NewFeature(geojson.NewPoint(p), ""))
		}},
	}
	meters := func(m, q int) float64 { return (float64(m) + float64(q)/8) * stepU }
	for ri, ring := range rings {
		for _, r := range rows {
			qs := []int{1, 3, 5, 7}
			if r.m == 0 {
				qs = append(qs, 0)
			}
			for _, q := range qs {
				if tier != "thorough" && (ri+q+r.c)%2 == 0 {
					continue
				}
				circle := geojson.NewCircle(ring.pos(r.c), meters(r.m, q), 64)
				for p := 0; p < c13NP; p++ {
					call := calls[(p+q+r.c)%len(calls)]
					if tier == "thorough" {
						call = calls[(p+ri)%len(calls)]
					}
					exp := r.bits[p] == 1
					evals++
					if got := call.fn(circle, ring.pos(p)); got != exp {
						mism++
						ev.Emit(obj{"op": "pt", "c": r.c, "r": []int{r.m, q}, "p": p, "got": got, "ring": ring.name, "call": call.name, "src": "replay"})
					}
				}
			}
			// circle / circle relations generated with this row
			for _, pr := range r.pairs {
				cb, mb, qa, qb, amb := pr[0], pr[1], pr[2], pr[3], pr[6]
				if amb == 1 {
					continue
				}
				A := geojson.NewCircle(ring.pos(r.c), meters(r.m, qa), 64)
				B := geojson.NewCircle(ring.pos(cb), meters(mb, qb), 32)
				for k, fn := range []func() bool{
					func() bool { return A.Contains(B) }, func() bool { return B.Within(A) },
					func() bool { return A.Intersects(B) }, func() bool { return B.Intersects(A) },
					func() bool { return geojson.NewFeature(A, "").Contains(geojson.NewFeature(B, "")) },
				} {
					kind, exp := "contains", pr[4] == 1
					if k == 2 || k == 3 {
						kind, exp = "intersects", pr[5] == 1
					}
					evals++
					if got := fn(); got != exp {
						mism++
						ev.Emit(obj{"op": "cc", "kind": kind, "c": r.c, "r": []int{r.m, qa}, "c2": cb, "r2": []int{mb, qb}, "got": got, "ring": ring.name, "call": k, "src": "replay"})
					}
				}
			}
		}
	}
	// recorded events: Distance between point-like objects at lattice positions (centre-to-centre great-circle distance)
	mkObj := []func(p geometry.Point) geojson.Object{
		func(p geometry.Point) geojson.Object { return geojson.NewPoint(p) },
		func(p geometry.Point) geojson.Object { return geojson.NewSimplePoint(p) },
		func(p geometry.Point) geojson.Object { return geojson.NewFeature(geojson.NewPoint(p), "") },
		func(p geometry.Point) geojson.Object { return geojson.NewMultiPoint([]geometry.Point{p}) },
		func(p geometry.Point) geojson.Object { return geojson.NewRect(geometry.Rect{Min: p, Max: p}) },
		func(p geometry.Point) geojson.Object {
			return geojson.NewGeometryCollection([]geojson.Object{geojson.NewPoint(p)})
		},
	}
	for k := 0; k < 2000; k++ {
		ring := rings[rng.Intn(len(rings))]
		ci, pi := rng.Intn(c13NP), rng.Intn(c13NP)
		a, b := mkObj[rng.Intn(len(mkObj))](ring.pos(ci)), mkObj[rng.Intn(len(mkObj))](ring.pos(pi))
		d, d2 := a.Distance(b), b.Distance(a)
		steps := math.Round(d / stepU)
		ev.Emit(obj{"op": "dist", "c": ci, "p": pi, "steps": int(steps), "err_ppm": int(math.Abs(d-steps*stepU) / stepU * 1e6),
			"symmetric": math.Abs(d-d2) <= 1e-6*stepU, "ring": ring.name, "src": "rec"})
	}
	// recorded events: off-lattice probes at a fraction of the radius, serialisation, shape
	nrec := 1500
	if tier == "thorough" {
		nrec = 15000
	}
	for k := 0; k < nrec; k++ {
		lat := rng.Float64()*150 - 75
		lon := rng.Float64()*360 - 180
		radius := math.Pow(10, rng.Float64()*7.6-1.3) // 5 cm .. 2000 km
		switch k % 10 {
		case 7: // the disc straddles the antimeridian
			off := radius / 111000 * rng.Float64() * 0.9 / math.Cos(lat*math.Pi/180)
			if off > 170 {
				off = 170
			}
			lon = 180 - off
			if k%20 == 7 {
				lon = -180 + off
			}
		case 8: // the disc covers a pole (or comes close to it)
			off := radius / 111000 * rng.Float64() * 1.5
			if off > 80 {
				off = 80
			}
			lat = 90 - off
			if k%20 == 8 {
				lat = -90 + off
			}
		case 9: // centre exactly on the antimeridian / the equator / the prime meridian
			lon = []float64{180, -180, 0, 90}[k/10%4]
			if k%30 == 9 {
				lat = 0
			}
		}
		steps := []int{0, 2, 3, 8, 64, 64, 64, 100, 4096}[rng.Intn(9)]
		if steps == 4096 && k%50 != 0 {
			steps = 64
		}
		c := geojson.NewCircle(geometry.Point{X: lon, Y: lat}, radius, steps)
		via := "NewCircle"
		if k%4 != 0 { // most probes go against a circle obtained through Parse (metres, kilometres, radius given as a string)
			var text string
			switch k % 4 {
			case 1:
				text, via = c.JSON(), "Parse(JSON())"
			case 2:
				text, via = fmt.Sprintf(`{"type":"Feature","geometry":{"type":"Point","coordinates":[%s,%s]},"properties":{"type":"Circle","radius":%s,"radius_units":"km"}}`, fnum(lon), fnum(lat), fnum(radius/1000)), "Parse(km)"
			default:
				text, via = fmt.Sprintf(`{"type":"Feature","properties":{"radius_units":"m","radius":"%s","type":"Circle"},"geometry":{"type":"Point","coordinates":[%s,%s]}}`, fnum(radius), fnum(lon), fnum(lat)), "Parse(string radius)"
			}
			po := parseOptSets[k%len(parseOptSets)]
			if o, err := geojson.Parse(text, &po); err == nil {
				if pc, ok := o.(*geojson.Circle); ok {
					c = pc
				}
			}
		}
		bearing := []float64{2.8125, 47.8125, 123.4, 180 + 2.8125, 271.3, rng.Float64() * 360}[rng.Intn(6)]
		f := []int{9990, 9995, 10005, 10010, 5000, 9000, 11000}[rng.Intn(7)]
		if radius < 10 { // sub-10 m circles: keep a 10% margin (placing the probe is itself numeric)
			f = []int{5000, 9000, 11000}[rng.Intn(3)]
		}
		plat, plon := geo.DestinationPoint(lat, lon, radius*float64(f)/10000, bearing)
		p := geometry.Point{X: plon, Y: plat}
		// where the probe really is: chord between the two unit vectors (independent of the library's own formulas; good to a
		// nanometre also next to a pole, where placing a probe by bearing is ill-conditioned)
		dTrue := chordDistance(lat, lon, plat, plon)
		margin := math.Max(0.002, 1e-7*radius)
		if math.Abs(dTrue-radius) < margin {
			continue // too close to the threshold to be decided within the property's tolerance
		}
		if ft := int(math.Round(dTrue / radius * 10000)); ft != f {
			f = ft // the probe is not where it was aimed at: judge it where it is
			if f == 10000 {
				if dTrue > radius {
					f = 10001
				} else {
					f = 9999
				}
			}
		}
		call := calls[rng.Intn(len(calls))]
		ev.Emit(obj{"op": "frac", "f": f, "got": call.fn(c, p), "call": call.name, "centre": []float64{lon, lat}, "radius": radius, "bearing": bearing, "via": via, "src": "rec"})
		if k%3 == 0 {
			text := c.JSON()
			switch k % 9 {
			case 3:
				text = fmt.Sprintf(`{"type":"Feature","geometry":{"type":"Point","coordinates":[%s,%s]},"properties":{"type":"Circle","radius":%s,"radius_units":"km"}}`, fnum(lon), fnum(lat), fnum(radius/1000))
			case 6:
				text = fmt.Sprintf(`{"type":"Feature","properties":{"radius_units":"m","radius":"%s","type":"Circle"},"geometry":{"type":"Point","coordinates":[%s,%s]}}`, fnum(radius), fnum(lon), fnum(lat))
			}
			po := parseOptSets[k%len(parseOptSets)]
			o, err := geojson.Parse(text, &po)
			c2, ok := o.(*geojson.Circle)
			e := obj{"op": "ser", "iscircle": ok && err == nil, "samecentre": false, "sameradius": false, "text": clip(text, 300), "src": "rec"}
			if ok {
				e["samecentre"] = c2.Center() == c.Center() && c.Center() == (geometry.Point{X: lon, Y: lat}) // also: the centre is the one asked for
				e["sameradius"] = math.Abs(c2.Meters()-c.Meters()) <= 1e-9*c.Meters()
				if k%9 == 0 { // the object's own output: the same radius, bit for bit (kilometre and string spellings are converted)
					e["sameradius"] = math.Float64bits(c2.Meters()) == math.Float64bits(c.Meters())
				}
			}
			ev.Emit(e)
			poly, _ := c.Polygon().(*geojson.Polygon)
			ext := poly.Base().Exterior
			n := ext.NumPoints()
			rect := c.Rect()
			eff := steps
			if eff < 3 {
				eff = 3
			}
			ev.Emit(obj{"op": "shape", "closed": n > 3 && ext.PointAt(0) == ext.PointAt(n-1), "rectHasCentre": rect.ContainsPoint(c.Center()), "steps": n - 2 + b2i(n-2 < eff)*0, "requested": steps, "npoints": n, "src": "rec"})
		}
	}
	// recorded events: circle against circle at free positions and scales (the lattice relations above start at 6.9 km)
	nccf := 0
	for k := 0; k < nrec; k++ {
		lat := rng.Float64()*160 - 80
		lon := rng.Float64()*360 - 180
		ra := math.Pow(10, rng.Float64()*8-2) // 1 cm .. 1000 km
		rb := ra * []float64{0.03, 0.3, 0.9, 0.97, 1, 1.5, 4}[rng.Intn(7)]
		want := []float64{0.02, 0.045, 0.5, 0.9, 1.1, 2, 6}[rng.Intn(7)] * ra
		if k%3 == 0 { // aim next to a threshold: d + rb = ra(1 +- 8%) or d = (ra + rb)(1 +- 8%)
			sgn := 1 + 0.08*float64(2*(k/3%2)-1)
			if k%6 < 3 && rb < ra {
				want = ra*sgn - rb
			} else {
				want = (ra + rb) * sgn
			}
		}
		if want <= 0 || want > 5e6 {
			continue
		}
		lat2, lon2 := geo.DestinationPoint(lat, lon, want, rng.Float64()*360)
		d := chordDistance(lat, lon, lat2, lon2)
		tol := math.Max(0.002, 0.03*ra)
		if math.Abs(d+rb-ra) < tol || math.Abs(d-ra-rb) < tol || d > 100*ra || rb > 100*ra {
			continue
		}
		a := geojson.NewCircle(geometry.Point{X: lon, Y: lat}, ra, 64)
		b := geojson.NewCircle(geometry.Point{X: lon2, Y: lat2}, rb, []int{64, 12, 3}[k%3])
		ev.Emit(obj{"op": "ccf", "d": int(math.Round(d / ra * 1e6)), "rb": int(math.Round(rb / ra * 1e6)), "contains": a.Contains(b), "intersects": a.Intersects(b),
			"symmetric": a.Intersects(b) == b.Intersects(a) && a.Contains(b) == b.Within(a), "ra_m": ra, "centreA": []float64{lon, lat}, "centreB": []float64{lon2, lat2}, "src": "rec"})
		nccf++
	}
	printJSON(obj{"rows": len(rows), "rings": len(rings), "evaluations": evals, "mismatches": mism, "events": ev.N, "free_circle_pairs": nccf})
	return nil
}

// chordDistance: great-circle distance in metres from the chord between the two positions' unit vectors
func chordDistance(lat1, lon1, lat2, lon2 float64) float64 {
	const earthRadius = 6371e3
	r := math.Pi / 180
	x1, y1, z1 := math.Cos(lat1*r)*math.Cos(lon1*r), math.Cos(lat1*r)*math.Sin(lon1*r), math.Sin(lat1*r)
	x2, y2, z2 := math.Cos(lat2*r)*math.Cos(lon2*r), math.Cos(lat2*r)*math.Sin(lon2*r), math.Sin(lat2*r)
	c := math.Sqrt((x1-x2)*(x1-x2) + (y1-y2)*(y1-y2) + (z1-z2)*(z1-z2))
	return 2 * earthRadius * math.Asin(math.Min(1, c/2))
}
