package main

// session: steps the behaviours TLC wrote for spec/Session.tla (tlc -simulate over GenSpec) through the real library.
// After EVERY step the whole store is projected (tree with the concrete Go type of every leaf) and compared with the
// specification's store, together with the facts (Empty, Rect, NumPoints), the replies to the three predicates for
// every ordered pair of stored objects and the child search of every stored collection.  Only disagreements are
// written as events (in the formats C09 / C10 already judge), plus a summary on stdout.

import (
	"encoding/json"
	"fmt"
	"math"

	"github.com/tidwall/geojson"
	"github.com/tidwall/geojson/geometry"
)

func init() { commands["session"] = session }

var sessionOpts = []geojson.ParseOptions{
	{AllowSimplePoints: false, AllowRects: false, IndexChildren: 64, IndexGeometryKind: geometry.QuadTree, IndexGeometry: 64},
	{AllowSimplePoints: true, AllowRects: false, IndexChildren: 0, IndexGeometryKind: geometry.None, IndexGeometry: 0},
	{AllowSimplePoints: false, AllowRects: true, IndexChildren: 1, IndexGeometryKind: geometry.RTree, IndexGeometry: 1},
	{AllowSimplePoints: true, AllowRects: true, IndexChildren: 2, IndexGeometryKind: geometry.QuadTree, IndexGeometry: 1},
	{AllowSimplePoints: false, AllowRects: false, IndexChildren: 1, IndexGeometryKind: geometry.RTree, IndexGeometry: 64},
	{AllowSimplePoints: true, AllowRects: true, IndexChildren: 0, IndexGeometryKind: geometry.RTree, IndexGeometry: 4},
}

var sessionMembers = []string{"", `{"id":"k7","properties":{"a":[1,2]}}`, `{"zz":{"type":"x"},"properties":null}`}

func ival(f float64) int {
	if f != math.Trunc(f) || math.Abs(f) > 1e6 {
		return 987654321
	}
	return int(f)
}
func ipt(p geometry.Point) []int { return []int{ival(p.X), ival(p.Y)} }

// projectRep is the abstraction function of the session machine: real object -> Objects.tla tuple with the concrete kinds.
func projectRep(o geojson.Object) Tree {
	switch v := o.(type) {
	case *geojson.Point:
		return Tree{Kind: "Point", P: ipt(v.Base())}
	case *geojson.SimplePoint:
		return Tree{Kind: "SimplePoint", P: ipt(v.Base())}
	case *geojson.Rect:
		return Tree{Kind: "Rect", Min: ipt(v.Base().Min), Max: ipt(v.Base().Max)}
	case *geojson.LineString:
		t := Tree{Kind: "LineString"}
		for i := 0; i < v.Base().NumPoints(); i++ {
			t.Pts = append(t.Pts, ipt(v.Base().PointAt(i)))
		}
		return t
	case *geojson.Polygon:
		t := Tree{Kind: "Polygon"}
		p := v.Base()
		if p.Exterior != nil {
			ring := func(n int, at func(int) geometry.Point) [][]int {
				r := [][]int{}
				for i := 0; i < n; i++ {
					r = append(r, ipt(at(i)))
				}
				return r
			}
			t.Rings = append(t.Rings, ring(p.Exterior.NumPoints(), p.Exterior.PointAt))
			for _, h := range p.Holes {
				t.Rings = append(t.Rings, ring(h.NumPoints(), h.PointAt))
			}
		}
		return t
	case *geojson.MultiPoint:
		t := Tree{Kind: "MultiPoint"}
		for _, c := range v.Children() {
			ct := projectRep(c)
			if ct.Kind != "Point" {
				return Tree{Kind: "MultiPoint-with-" + ct.Kind}
			}
			t.Pts = append(t.Pts, ct.P)
		}
		return t
	case *geojson.MultiLineString:
		t := Tree{Kind: "MultiLineString"}
		for _, c := range v.Children() {
			ct := projectRep(c)
			if ct.Kind != "LineString" {
				return Tree{Kind: "MultiLineString-with-" + ct.Kind}
			}
			t.Rings = append(t.Rings, nn2(ct.Pts))
		}
		return t
	case *geojson.MultiPolygon:
		t := Tree{Kind: "MultiPolygon"}
		for _, c := range v.Children() {
			ct := projectRep(c)
			if ct.Kind != "Polygon" {
				return Tree{Kind: "MultiPolygon-with-" + ct.Kind}
			}
			t.Polys = append(t.Polys, nn3(ct.Rings))
		}
		return t
	case *geojson.GeometryCollection:
		t := Tree{Kind: "GeometryCollection"}
		for _, c := range v.Children() {
			t.Kids = append(t.Kids, projectRep(c))
		}
		return t
	case *geojson.FeatureCollection:
		t := Tree{Kind: "FeatureCollection"}
		for _, c := range v.Children() {
			t.Kids = append(t.Kids, projectRep(c))
		}
		return t
	case *geojson.Feature:
		return Tree{Kind: "Feature", Kids: []Tree{projectRep(v.Base())}}
	}
	return Tree{Kind: fmt.Sprintf("%T", o)}
}

func treeText(t Tree) string {
	defer func() { recover() }()
	b, _ := json.Marshal(t.JSON())
	return string(b)
}

type sessAct struct {
	name string
	raw  []json.RawMessage
}

func (a sessAct) i(k int) int {
	var v int
	json.Unmarshal(a.raw[k], &v)
	return v
}
func (a sessAct) s(k int) string {
	var v string
	json.Unmarshal(a.raw[k], &v)
	return v
}

func session(args []string) error {
	if len(args) != 3 {
		return fmt.Errorf("usage: session steps.lines leaves.ndjson outdir")
	}
	type leaf struct {
		K string          `json:"k"`
		S json.RawMessage `json:"s"`
	}
	var leaves []leaf
	if err := readLines(args[1], func(line []byte) error {
		var l leaf
		if err := json.Unmarshal(line, &l); err != nil {
			return err
		}
		leaves = append(leaves, l)
		return nil
	}); err != nil {
		return err
	}
	leafObj := func(i int) (geojson.Object, error) {
		l := leaves[i-1]
		sh, err := parseShape(l.S)
		if err != nil {
			return nil, err
		}
		switch l.K {
		case "SimplePoint":
			return sh.Object(Identity, &indexConfigs[i%3], true), nil
		default:
			return sh.Object(Identity, &indexConfigs[i%3], false), nil
		}
	}
	ev, err := newEvents(args[2] + "/session.events.ndjson")
	if err != nil {
		return err
	}
	defer ev.Close()
	queries := [][]int{{0, 0, 3, 3}, {0, 0, 0, 0}, {1, 1, 2, 2}, {3, 0, 3, 3}, {-5, -5, -4, -4}, {2, 2, 2, 2}, {0, 3, 3, 3}}
	var store []geojson.Object
	var skipped int
	diverged := false
	var behaviours, steps, stateChecks, factChecks, relCalls, searchCalls, mism, reparses, rejected, fixpoints int
	actions := map[string]int{}
	kinds := map[string]int{}
	var history []string
	maxDepth := 0
	bad := func(what string, step int, detail obj) {
		mism++
		if mism > 20000 { // counted, not written
			return
		}
		detail["op"] = "session"
		detail["what"] = what
		detail["step"] = step
		detail["behaviour"] = behaviours
		detail["history"] = append([]string{}, history...)
		ev.Emit(detail)
	}
	err = readLines(args[0], func(line []byte) error {
		var row []json.RawMessage
		if err := json.Unmarshal(line, &row); err != nil {
			return err
		}
		var tag string
		json.Unmarshal(row[0], &tag)
		if tag != "STEP" {
			return nil
		}
		var n int
		json.Unmarshal(row[1], &n)
		var act sessAct
		json.Unmarshal(row[2], &act.raw)
		act.name = act.s(0)
		var exp []json.RawMessage
		json.Unmarshal(row[3], &exp)
		if n == 1 {
			behaviours++
			store = make([]geojson.Object, len(exp))
			history = history[:0]
		}
		if store == nil {
			if n == 1 {
				return fmt.Errorf("behaviour does not start with step 1")
			}
			steps++ // the rest of a session whose action panicked is not stepped
			skipped++
			return nil
		}
		if n > maxDepth {
			maxDepth = n
		}
		steps++
		actions[act.name]++
		history = append(history, string(row[2]))
		// ---- the action on the real store
		_, out := guarded(func() bool {
			switch act.name {
			case "SetLeaf":
				o, err := leafObj(act.i(2))
				if err != nil {
					panic(err)
				}
				store[act.i(1)-1] = o
			case "SetEmpty":
				store[act.i(1)-1] = placeholderEmpty(act.s(2))
			case "SetBig":
				// a catalogue collection of 63..70 children (the child R-tree exists from 64 on): built through the
				// constructors from the tree the specification gives for it
				var pair []json.RawMessage
				json.Unmarshal(exp[act.i(1)-1], &pair)
				t, err := parseTree(pair[0])
				if err != nil {
					panic(err)
				}
				store[act.i(1)-1] = t.Build(Identity, &indexConfigs[act.i(2)%3])
			case "Wrap":
				store[act.i(1)-1] = geojson.NewFeature(store[act.i(2)-1], sessionMembers[act.i(3)])
			case "Collect":
				var js []int
				json.Unmarshal(act.raw[3], &js)
				var kids []geojson.Object
				for _, j := range js {
					kids = append(kids, store[j-1])
				}
				var o geojson.Object
				switch act.s(2) {
				case "GeometryCollection":
					o = geojson.NewGeometryCollection(kids)
				case "FeatureCollection":
					o = geojson.NewFeatureCollection(kids)
				case "MultiPoint":
					var ps []geometry.Point
					for _, k := range kids {
						ps = append(ps, k.Center())
					}
					o = geojson.NewMultiPoint(ps)
				case "MultiLineString":
					var ls []*geometry.Line
					for _, k := range kids {
						ls = append(ls, k.(*geojson.LineString).Base())
					}
					o = geojson.NewMultiLineString(ls)
				case "MultiPolygon":
					var ps []*geometry.Poly
					for _, k := range kids {
						switch p := k.(type) {
						case *geojson.Polygon:
							ps = append(ps, p.Base())
						case *geojson.Rect:
							r := p.Base()
							ps = append(ps, geometry.NewPoly([]geometry.Point{r.Min, {X: r.Max.X, Y: r.Min.Y}, r.Max, {X: r.Min.X, Y: r.Max.Y}, r.Min}, nil, nil))
						default:
							panic(fmt.Sprintf("MultiPolygon over %T", k))
						}
					}
					o = geojson.NewMultiPolygon(ps)
				}
				store[act.i(1)-1] = o
			case "Reparse":
				reparses++
				src := store[act.i(2)-1]
				text := src.JSON()
				po := sessionOpts[act.i(3)-1]
				o, err := geojson.Parse(text, &po)
				if act.s(4) == "rejected" {
					rejected++
					if err == nil || o != nil {
						bad("reparse-accepted", n, obj{"text": text, "exp": "Parse rejects the text (a line of fewer than two or a ring of fewer than four positions)", "got": fmt.Sprint(o, err)})
					}
					return true
				}
				if err != nil || o == nil {
					bad("reparse-rejected", n, obj{"text": text, "exp": "accepted", "got": fmt.Sprint(err)})
					diverged = true // the real store no longer follows the specification's: the rest of this session is not stepped
					return true
				}
				var fix bool
				json.Unmarshal(act.raw[5], &fix)
				if fix {
					fixpoints++
					if o.JSON() != text {
						bad("reparse-fixpoint", n, obj{"text": text, "got": o.JSON(), "exp": text})
					}
				}
				store[act.i(1)-1] = o
			case "Del":
				store[act.i(1)-1] = nil
			default:
				panic("unknown action " + act.name)
			}
			return true
		})
		if out != "ok" {
			bad("action-panic", n, obj{"got": out, "exp": "the call returns"})
			store = nil
			return nil
		}
		if diverged {
			diverged = false
			store = nil
			return nil
		}
		// ---- the whole projected state
		type entry struct {
			tree  Tree
			text  string
			empty bool
			rect  []int
			np    int
		}
		want := make([]*entry, len(exp))
		for k, raw := range exp {
			var pair []json.RawMessage
			json.Unmarshal(raw, &pair)
			if len(pair) == 0 {
				if store[k] != nil {
					bad("state", n, obj{"key": k + 1, "got": treeText(projectRep(store[k])), "exp": "no object"})
				}
				continue
			}
			t, err := parseTree(pair[0])
			if err != nil {
				return err
			}
			var facts []json.RawMessage
			json.Unmarshal(pair[1], &facts)
			e := &entry{tree: t, text: treeText(t)}
			json.Unmarshal(facts[0], &e.empty)
			json.Unmarshal(facts[1], &e.rect)
			json.Unmarshal(facts[2], &e.np)
			want[k] = e
			kinds[t.Kind]++
			stateChecks++
			if store[k] == nil {
				bad("state", n, obj{"key": k + 1, "got": "no object", "exp": e.text})
				continue
			}
			real := store[k]
			_, out := guarded(func() bool {
				if got := treeText(projectRep(real)); got != e.text {
					bad("state", n, obj{"key": k + 1, "got": got, "exp": e.text, "tree": t.JSON()})
				}
				factChecks += 3
				if real.Empty() != e.empty {
					bad("empty", n, obj{"key": k + 1, "tree": t.JSON(), "got": real.Empty(), "exp": e.empty})
				}
				if !e.empty {
					r := real.Rect()
					if !feq([]float64{r.Min.X, r.Min.Y, r.Max.X, r.Max.Y}, e.rect) {
						bad("rect", n, obj{"key": k + 1, "tree": t.JSON(), "got": []float64{r.Min.X, r.Min.Y, r.Max.X, r.Max.Y}, "exp": e.rect})
					}
				}
				if real.NumPoints() != e.np {
					bad("npoints", n, obj{"key": k + 1, "tree": t.JSON(), "got": real.NumPoints(), "exp": e.np})
				}
				return true
			})
			if out != "ok" {
				bad("fact-panic", n, obj{"key": k + 1, "tree": t.JSON(), "got": out, "exp": "the call returns"})
			}
		}
		// ---- predicates between every ordered pair of stored objects
		var rel [][][]int
		json.Unmarshal(row[4], &rel)
		gotCode := make([][]int, len(rel))
		for a := range rel {
			gotCode[a] = make([]int, len(rel[a]))
			for b := range rel[a] {
				gotCode[a][b] = -1
				if len(rel[a][b]) != 2 || store[a] == nil || store[b] == nil || want[a] == nil || want[b] == nil {
					continue
				}
				gotCode[a][b] = 0
				l1, l2 := rel[a][b][0], rel[a][b][1]
				va, vb := store[a], store[b]
				calls := []struct {
					name string
					bit  int
					fn   func() bool
				}{
					{"A.Intersects(B)", 1, func() bool { return va.Intersects(vb) }},
					{"A.Contains(B)", 2, func() bool { return va.Contains(vb) }},
					{"A.Within(B)", 4, func() bool { return va.Within(vb) }},
				}
				for _, c := range calls {
					relCalls++
					got, out := guarded(c.fn)
					exp := l1&c.bit != 0
					if out != "ok" {
						gotCode[a][b] = -1
					} else if got && gotCode[a][b] >= 0 {
						gotCode[a][b] |= c.bit
					}
					if out == "ok" && got == exp {
						continue
					}
					mism++
					if mism > 20000 {
						continue
					}
					ev.Emit(obj{"op": "rel", "session": true, "behaviour": behaviours, "step": n, "history": append([]string{}, history...), "call": c.name, "A": want[a].tree.JSON(), "B": want[b].tree.JSON(),
						"got": got, "out": out, "exp": exp, "l2": l2&c.bit != 0, "a": a + 1, "b": b + 1})
				}
			}
		}
		// ---- the dualities relate the real answers to each other: A.Within(B) = B.Contains(A), A.Intersects(B) = B.Intersects(A)
		for a := range gotCode {
			for b := range gotCode[a] {
				ab, ba := gotCode[a][b], gotCode[b][a]
				if ab < 0 || ba < 0 {
					continue
				}
				if (ab&4 != 0) != (ba&2 != 0) {
					mism++
					ev.Emit(obj{"op": "dual", "session": true, "behaviour": behaviours, "step": n, "history": append([]string{}, history...), "calls": "A.Within(B) / B.Contains(A)",
						"A": want[a].tree.JSON(), "B": want[b].tree.JSON(), "r1": fmt.Sprint(ab&4 != 0), "r2": fmt.Sprint(ba&2 != 0)})
				}
				if a < b && (ab&1 != 0) != (ba&1 != 0) {
					mism++
					ev.Emit(obj{"op": "dual", "session": true, "behaviour": behaviours, "step": n, "history": append([]string{}, history...), "calls": "A.Intersects(B) / B.Intersects(A)",
						"A": want[a].tree.JSON(), "B": want[b].tree.JSON(), "r1": fmt.Sprint(ab&1 != 0), "r2": fmt.Sprint(ba&1 != 0)})
				}
			}
		}
		// ---- child search of every stored collection
		var searches [][][]int
		json.Unmarshal(row[5], &searches)
		for a := range searches {
			if len(searches[a]) != len(queries) || store[a] == nil {
				continue
			}
			base := store[a]
			for {
				f, ok := base.(*geojson.Feature)
				if !ok {
					break
				}
				base = f.Base()
			}
			coll, ok := base.(geojson.Collection)
			if !ok {
				bad("state", n, obj{"key": a + 1, "got": fmt.Sprintf("%T is not a collection", base), "exp": want[a].text})
				continue
			}
			kids := coll.Children()
			for qi, q := range queries {
				for _, stop := range []int{0, 1, 2} {
					searchCalls++
					var hits []int
					after := 0
					stopped := false
					_, out := guarded(func() bool {
						coll.Search(geometry.Rect{Min: geometry.Point{X: float64(q[0]), Y: float64(q[1])}, Max: geometry.Point{X: float64(q[2]), Y: float64(q[3])}},
							func(c geojson.Object) bool {
								if stopped {
									after++
									return false
								}
								k := -1
								for i := range kids {
									if kids[i] == c {
										k = i + 1
										break // the same pointer may be stored twice: report the first position
									}
								}
								hits = append(hits, k)
								if stop > 0 && len(hits) == stop {
									stopped = true
									return false
								}
								return true
							})
						return true
					})
					if out != "ok" || !sessionSearchOK(kids, hits, searches[a][qi], stop, after) {
						bad("search", n, obj{"key": a + 1, "tree": want[a].tree.JSON(), "q": q, "stop": stop, "got": nonNilInts(hits), "exp": nonNilInts(searches[a][qi]), "after": after, "out": out, "indexed": coll.Indexed()})
					}
				}
			}
		}
		return nil
	})
	if err != nil {
		return err
	}
	printJSON(obj{"behaviours": behaviours, "steps": steps, "max_depth": maxDepth, "state_checks": stateChecks, "fact_checks": factChecks,
		"relation_calls": relCalls, "search_calls": searchCalls, "mismatches": mism, "actions": actions, "stored_kinds": kinds,
		"reparses": reparses, "reparses_rejected": rejected, "fixpoint_checks": fixpoints, "steps_skipped_after_a_panic": skipped})
	return nil
}

// sessionSearchOK: like searchOK, but the same pointer may sit at several positions of a collection (Collect with a
// repeated key): positions are compared as multisets of the objects they hold.
func sessionSearchOK(kids []geojson.Object, hits, exp []int, stop, after int) bool {
	if after != 0 {
		return false
	}
	canon := func(pos int) int {
		if pos < 1 {
			return pos
		}
		for i := range kids {
			if kids[i] == kids[pos-1] {
				return i + 1
			}
		}
		return pos
	}
	count := map[int]int{}
	for _, e := range exp {
		count[canon(e)]++
	}
	got := map[int]int{}
	for _, h := range hits {
		if h < 1 {
			return false
		}
		got[h]++
		if got[h] > count[h] {
			return false
		}
	}
	if stop == 0 || len(exp) < stop {
		return len(hits) == len(exp)
	}
	return len(hits) == stop
}

func placeholderEmpty(kind string) geojson.Object {
	switch kind {
	case "LineString0":
		return geojson.NewLineString(geometry.NewLine(nil, nil))
	case "LineString1":
		return geojson.NewLineString(geometry.NewLine([]geometry.Point{{X: 1, Y: 1}}, nil))
	case "PolygonNil":
		return geojson.NewPolygon(nil)
	case "Polygon2":
		return geojson.NewPolygon(geometry.NewPoly([]geometry.Point{{X: 0, Y: 0}, {X: 1, Y: 1}}, nil, nil))
	}
	panic("unknown empty kind " + kind)
}
