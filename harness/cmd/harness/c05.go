package main

import (
	"bufio"
	"encoding/json"
	"fmt"
	"math"
	"os"
	"os/exec"
	"runtime/debug"
	"strings"
	"time"

	"github.com/tidwall/geojson"
	"github.com/tidwall/geojson/geometry"
)

// C05: every operation terminates normally.
//
//	c05 <objects.lines> <walk.lines> <outdir> <seed> <tier>   parent: drives a worker process under a watchdog
//	c05worker <objects.lines> <walk.lines> <from> <tier>      child: executes the cases one by one
//
// The worker prints "S <i>" before and "D <i> <json>" after every case; the
// parent enforces a deadline per case, records timeouts / crashes (stack
// overflow kills the process) and restarts the worker after the failed case.
func init() {
	commands["c05"] = c05parent
	commands["c05worker"] = c05worker
}

type sweepCase struct {
	kind string // walk | unary | binary | parse
	a, b int
	text string
	m    string
}

type walkRow struct {
	line   [][]int
	others [][][]int
	codes  []int
}

func loadC05(objPath, walkPath string) ([]Tree, []walkRow, error) {
	var trees []Tree
	if err := readLines(objPath, func(line []byte) error {
		var raw []json.RawMessage
		if err := json.Unmarshal(line, &raw); err != nil {
			return err
		}
		t, err := parseTree(raw[1])
		if err != nil {
			return err
		}
		trees = append(trees, t)
		return nil
	}); err != nil {
		return nil, nil, err
	}
	var walks []walkRow
	if err := readLines(walkPath, func(line []byte) error {
		var raw []json.RawMessage
		if err := json.Unmarshal(line, &raw); err != nil {
			return err
		}
		var w walkRow
		json.Unmarshal(raw[1], &w.line)
		var items [][]json.RawMessage
		json.Unmarshal(raw[2], &items)
		for _, it := range items {
			var o [][]int
			var c int
			json.Unmarshal(it[0], &o)
			json.Unmarshal(it[1], &c)
			w.others = append(w.others, o)
			w.codes = append(w.codes, c)
		}
		walks = append(walks, w)
		return nil
	}); err != nil {
		return nil, nil, err
	}
	return trees, walks, nil
}

var unaryMethods = []string{"Empty", "Valid", "Rect", "Center", "JSON", "String", "AppendJSON", "MarshalJSON", "NumPoints", "ForEach", "Spatial", "Members", "Children", "Search", "Reparse"}
var binaryMethods = []string{"Contains", "Within", "Intersects", "Distance", "Spatial.Within", "Spatial.Intersects", "Spatial.Distance"}

func baseGeom(o geojson.Object) interface{} {
	switch v := o.(type) {
	case *geojson.Point:
		return v.Base()
	case *geojson.SimplePoint:
		return v.Base()
	case *geojson.Rect:
		return v.Base()
	case *geojson.LineString:
		return v.Base()
	case *geojson.Polygon:
		return v.Base()
	}
	return nil
}

func runUnary(m string, o geojson.Object) {
	switch m {
	case "Empty":
		o.Empty()
	case "Valid":
		o.Valid()
	case "Rect":
		o.Rect()
	case "Center":
		o.Center()
	case "JSON":
		_ = o.JSON()
	case "String":
		_ = o.String()
	case "AppendJSON":
		o.AppendJSON([]byte("prefix"))
	case "MarshalJSON":
		o.MarshalJSON()
	case "NumPoints":
		o.NumPoints()
	case "ForEach":
		n := 0
		o.ForEach(func(g geojson.Object) bool { n++; return n < 3 })
	case "Spatial":
		_ = o.Spatial()
	case "Members":
		_ = o.Members()
	case "Children":
		if c, ok := o.(geojson.Collection); ok {
			c.Children()
			c.Indexed()
		}
	case "Search":
		if c, ok := o.(geojson.Collection); ok {
			n := 0
			c.Search(geometry.Rect{Min: geometry.Point{X: -1, Y: -1}, Max: geometry.Point{X: 3, Y: 3}}, func(geojson.Object) bool { n++; return n < 2 })
			c.Search(geometry.Rect{Min: geometry.Point{X: math.Inf(-1), Y: math.Inf(-1)}, Max: geometry.Point{X: math.Inf(1), Y: math.Inf(1)}}, func(geojson.Object) bool { return true })
		}
	case "Reparse":
		for i := range parseOptSets {
			geojson.Parse(o.JSON(), &parseOptSets[i])
		}
	}
}

func runBinary(m string, a, b geojson.Object) {
	switch m {
	case "Contains":
		a.Contains(b)
	case "Within":
		a.Within(b)
	case "Intersects":
		a.Intersects(b)
	case "Distance":
		a.Distance(b)
	default:
		sp := a.Spatial()
		switch g := baseGeom(b).(type) {
		case geometry.Point:
			switch m {
			case "Spatial.Within":
				sp.WithinPoint(g)
			case "Spatial.Intersects":
				sp.IntersectsPoint(g)
			default:
				sp.DistancePoint(g)
			}
		case geometry.Rect:
			switch m {
			case "Spatial.Within":
				sp.WithinRect(g)
			case "Spatial.Intersects":
				sp.IntersectsRect(g)
			default:
				sp.DistanceRect(g)
			}
		case *geometry.Line:
			switch m {
			case "Spatial.Within":
				sp.WithinLine(g)
			case "Spatial.Intersects":
				sp.IntersectsLine(g)
			default:
				sp.DistanceLine(g)
			}
		case *geometry.Poly:
			switch m {
			case "Spatial.Within":
				sp.WithinPoly(g)
			case "Spatial.Intersects":
				sp.IntersectsPoly(g)
			default:
				sp.DistancePoly(g)
			}
		}
	}
}

// parseTexts: model-generated texts and their byte-level perturbations.
func parseTexts(trees []Tree, tier string) []string {
	var out []string
	out = append(out, "", " ", "{", "}", "{}", "null", "[]", "\x00", "\x01{}", "  \x00", `{"type":"Point","coordinates":[1,2]} x`, `{"type":1}`, `{"type":"Nope"}`,
		`{"type":"Point"}`, `{"type":"Point","coordinates":null}`, `{"type":"Point","coordinates":[1]}`, `{"type":"Point","coordinates":[1,"a"]}`,
		`{"type":"Feature","geometry":null}`, `{"type":"Feature","geometry":{"type":"Point","coordinates":[1,2]},"properties":{"type":"Circle","radius":"x","radius_units":"furlong"}}`,
		`{"type":"Polygon","coordinates":[[[0,0],[1,1],[0,0]]]}`, `{"type":"GeometryCollection","geometries":[{"type":"Point"}]}`)
	deep := strings.Repeat(`{"type":"GeometryCollection","geometries":[`, 2000) + `{"type":"Point","coordinates":[1,2]}` + strings.Repeat(`]}`, 2000)
	out = append(out, deep, strings.Repeat("[", 10000)+strings.Repeat("]", 10000), `{"type":"Polygon","coordinates":`+strings.Repeat("[", 10000)+strings.Repeat("]", 10000)+`}`)
	stride := 7
	if tier == "thorough" {
		stride = 1
	}
	for ti, t := range trees {
		if t.Kind == "Circle" && t.R == -999 {
			continue
		}
		text := t.Render(Identity)
		if len(text) > 600 {
			out = append(out, text)
			continue
		}
		out = append(out, text, " \t\r\n"+text+" \n")
		for i := (ti % stride); i < len(text); i += stride { // every prefix (strided in the quick tier), and single-byte damage
			out = append(out, text[:i])
			out = append(out, text[:i]+"\x00"+text[i:], text[:i]+"}"+text[i+1:], text[:i]+`"`+text[i:])
		}
	}
	// every byte value: alone, in front of / behind a document (also after white space, doubled, as byte order marks),
	// and substituted / inserted at every position of two short documents (a loop that inspects a byte without
	// consuming it shows only for that byte)
	point := `{"type":"Point","coordinates":[1,2]}`
	feat := `{"type":"Feature","geometry":{"type":"Point","coordinates":[1,2]},"properties":{"a":"b"},"id":1}`
	out = append(out, "\xef\xbb\xbf"+point, "\xef\xbb\xbf\xef\xbb\xbf"+point, " \xef\xbb\xbf"+point, point+"\xef\xbb\xbf", "\xef\xbb\xbf", "\xfe\xff"+point, "\xff\xfe"+point)
	for b := 0; b < 256; b++ {
		c := string([]byte{byte(b)})
		out = append(out, c, c+c, c+point, c+c+point, " "+c+point, "\n\t"+c+" "+point, point+c, point+" "+c, c+feat)
		for i := 0; i <= len(point); i++ {
			out = append(out, point[:i]+c+point[i:])
			if i < len(point) {
				out = append(out, point[:i]+c+point[i+1:])
			}
		}
		for i := (b % stride); i < len(feat); i += stride {
			out = append(out, feat[:i]+c+feat[i+1:], feat[:i]+c+feat[i:])
		}
	}
	out = append(out, lexTexts(os.Getenv("VERIF_LEXROWS"))...)
	out = append(out, docTexts(os.Getenv("VERIF_DOCROWS"))...)
	return out
}

// docTexts: the document universe of Gen_Doc (base documents and their structural mutations: mixed dimensions, holes,
// foreign members, nesting), plain spelling
func docTexts(path string) []string {
	if path == "" {
		return nil
	}
	rows, err := loadDocs(path)
	if err != nil {
		return nil
	}
	var out []string
	for _, r := range rows {
		out = append(out, r.ast.Text(renderOpts{table: tokenTables[0]}))
	}
	return out
}

// lexTexts: the texts generated from the state graph of the JSON automaton (Gen_Lex), canonical spelling, one host per context
func lexTexts(path string) []string {
	if path == "" {
		return nil
	}
	var out []string
	readLines(path, func(line []byte) error {
		var raw []json.RawMessage
		if json.Unmarshal(line, &raw) != nil || len(raw) < 4 {
			return nil
		}
		var ctx int
		var atoms []int
		json.Unmarshal(raw[1], &ctx)
		json.Unmarshal(raw[2], &atoms)
		if ctx == 4 {
			return nil
		}
		var fb strings.Builder
		for _, a := range atoms {
			fb.WriteString(atomReps[a][0])
		}
		for _, h := range lexHosts {
			if h.ctx == ctx {
				out = append(out, h.pre+fb.String()+h.post)
				break
			}
		}
		return nil
	})
	return out
}

func enumerateCases(trees []Tree, walks []walkRow, tier string) []sweepCase {
	var cs []sweepCase
	for a, w := range walks {
		for b := range w.others {
			cs = append(cs, sweepCase{kind: "walk", a: a, b: b})
		}
	}
	for a := range trees {
		for _, m := range unaryMethods {
			cs = append(cs, sweepCase{kind: "unary", a: a, m: m})
		}
	}
	for a := range trees {
		for b := range trees {
			for _, m := range binaryMethods {
				cs = append(cs, sweepCase{kind: "binary", a: a, b: b, m: m})
			}
		}
	}
	for _, t := range parseTexts(trees, tier) {
		cs = append(cs, sweepCase{kind: "parse", text: t})
	}
	return cs
}

func c05worker(args []string) error {
	trees, walks, err := loadC05(args[0], args[1])
	if err != nil {
		return err
	}
	from, tier := atoi(args[2]), args[3]
	skip := map[int]bool{}
	if len(args) > 4 && args[4] != "" {
		for _, k := range splitComma(args[4]) {
			skip[atoi(k)] = true
		}
	}
	debug.SetMaxStack(64 << 20) // a runaway recursion dies quickly
	cases := enumerateCases(trees, walks, tier)
	w := bufio.NewWriter(os.Stdout)
	objs := make([][]geojson.Object, len(trees))
	build := func(i, v int) geojson.Object {
		if objs[i] == nil {
			objs[i] = make([]geojson.Object, 2)
		}
		if objs[i][v] == nil {
			fmt.Fprintf(w, "B %d\n", i)
			w.Flush()
			defer func() { fmt.Fprintf(w, "b %d\n", i); w.Flush() }()
			if v == 0 {
				objs[i][v] = trees[i].buildC05(&indexConfigs[0])
			} else {
				objs[i][v] = trees[i].buildC05(nil)
			}
		}
		return objs[i][v]
	}
	for i := from; i < len(cases); i++ {
		c := cases[i]
		if (c.kind == "unary" && skip[c.a]) || (c.kind == "binary" && (skip[c.a] || skip[c.b])) {
			continue
		}
		fmt.Fprintf(w, "S %d\n", i)
		w.Flush()
		res := obj{}
		func() {
			defer func() {
				if r := recover(); r != nil {
					res["out"] = "panic"
					res["msg"] = fmt.Sprint(r)
					if rw, ok := r.(geometry.VerifRunaway); ok {
						res["out"] = "runaway"
						res["msg"] = rw.Site
						if len(rw.Ctx) == 2 {
							res["line"] = lineInts(rw.Ctx[0])
							res["other"] = lineInts(rw.Ctx[1])
						}
					}
				}
			}()
			res["out"] = "ok"
			switch c.kind {
			case "walk":
				wr := walks[c.a]
				l := geometry.NewLine(mapPts(Identity, wr.line), &indexConfigs[0])
				o := geometry.NewLine(mapPts(Identity, wr.others[c.b]), &indexConfigs[0])
				res["got"] = b2i(l.ContainsLine(o))
			case "unary":
				runUnary(c.m, build(c.a, i%2))
			case "binary":
				runBinary(c.m, build(c.a, i%2), build(c.b, (i/2)%2))
			case "parse":
				po := parseOptSets[i%len(parseOptSets)]
				if i%5 == 0 {
					po.RequireValid = true
				}
				o, err := geojson.Parse(c.text, &po)
				res["obj"] = o != nil
				res["err"] = err != nil
				if o != nil && err == nil { // "any object obtained from Parse": every unary method on it
					for _, m := range unaryMethods {
						res["m"] = "Parse, then " + m
						runUnary(m, o)
					}
					delete(res, "m")
				}
			}
		}()
		b, _ := json.Marshal(res)
		fmt.Fprintf(w, "D %d %s\n", i, b)
		w.Flush()
	}
	fmt.Fprintf(w, "E %d\n", len(cases))
	return w.Flush()
}

func lineInts(v interface{}) [][]int {
	l, ok := v.(*geometry.Line)
	if !ok || l == nil {
		return nil
	}
	out := [][]int{}
	for i := 0; i < l.NumPoints(); i++ {
		p := l.PointAt(i)
		out = append(out, []int{int(p.X), int(p.Y)})
	}
	return out
}

// buildC05 is Build with NaN for the radius sentinel -999; opts nil = library defaults.
func (t Tree) buildC05(opts *geometry.IndexOptions) geojson.Object {
	if t.Kind == "Circle" && t.R == -999 {
		return geojson.NewCircle(Identity.P(t.P[0], t.P[1]), math.NaN(), t.Steps)
	}
	if t.Kind == "Feature" && t.Kids[0].Kind == "Circle" && t.Kids[0].R == -999 {
		return geojson.NewFeature(t.Kids[0].buildC05(opts), "")
	}
	return t.Build(Identity, opts)
}

func c05parent(args []string) error {
	if len(args) != 5 {
		return fmt.Errorf("usage: c05 objects walk outdir seed tier")
	}
	trees, walks, err := loadC05(args[0], args[1])
	if err != nil {
		return err
	}
	tier := args[4]
	cases := enumerateCases(trees, walks, tier)
	ev, err := newEvents(args[2] + "/c05.events.ndjson")
	if err != nil {
		return err
	}
	defer ev.Close()
	self, _ := os.Executable()
	counts := map[string]int{}
	outcomes := map[string]int{}
	emit := func(i int, res obj) {
		c := cases[i]
		res["op"] = c.kind
		res["case"] = i
		switch c.kind {
		case "walk":
			res["line"] = walks[c.a].line
			res["other"] = walks[c.a].others[c.b]
			res["pred"] = walks[c.a].codes[c.b]
		case "unary":
			res["m"] = c.m
			res["a"] = trees[c.a].JSON()
		case "binary":
			res["m"] = c.m
			res["a"] = trees[c.a].JSON()
			res["b"] = trees[c.b].JSON()
		case "parse":
			t := c.text
			if len(t) > 300 {
				t = t[:300] + fmt.Sprintf("...(%d bytes)", len(c.text))
			}
			res["text"] = t
		}
		counts[c.kind]++
		outcomes[fmt.Sprint(res["out"])]++
		// only interesting events go to TLC in full: every abnormal outcome, every walk, a sample of the normal ones
		if res["out"] != "ok" || c.kind == "walk" || c.kind == "parse" || i%97 == 0 {
			ev.Emit(res)
		}
	}
	next := 0
	restarts := 0
	truncated := -1
	var skipped []string
	building := -1
	for next < len(cases) {
		cmd := exec.Command(self, "c05worker", args[0], args[1], fmt.Sprint(next), tier, strings.Join(skipped, ","))
		cmd.Stderr = nil
		stdout, err := cmd.StdoutPipe()
		if err != nil {
			return err
		}
		if err := cmd.Start(); err != nil {
			return err
		}
		lines := make(chan string, 1024)
		go func() {
			sc := bufio.NewScanner(stdout)
			sc.Buffer(make([]byte, 1<<20), 1<<26)
			for sc.Scan() {
				lines <- sc.Text()
			}
			close(lines)
		}()
		current := -1
		finished := false
	loop:
		for {
			deadline := 20 * time.Second
			if current >= 0 {
				deadline = 4 * time.Second
			}
			select {
			case l, ok := <-lines:
				if !ok {
					break loop
				}
				switch l[0] {
				case 'B':
					fmt.Sscanf(l, "B %d", &building)
				case 'b':
					building = -1
				case 'S':
					fmt.Sscanf(l, "S %d", &current)
				case 'D':
					var i int
					fmt.Sscanf(l, "D %d", &i)
					var res obj
					json.Unmarshal([]byte(l[strings.Index(l[2:], " ")+3:]), &res)
					emit(i, res)
					next = i + 1
					current = -1
				case 'E':
					finished = true
					next = len(cases)
				}
			case <-time.After(deadline):
				cmd.Process.Kill()
				if current >= 0 {
					if building >= 0 { // constructing this object hangs: report once and leave it out of the rest of the sweep
						ev.Emit(obj{"op": "build", "a": trees[building].JSON(), "out": "timeout", "msg": "constructing the object does not return", "case": current})
						outcomes["timeout"]++
						skipped = append(skipped, fmt.Sprint(building))
						building = -1
						next = current
					} else {
						emit(current, obj{"out": "timeout", "msg": fmt.Sprintf("no return within %v", deadline)})
						next = current + 1
					}
				}
				break loop
			}
		}
		cmd.Process.Kill()
		cmd.Wait()
		if !finished && next < len(cases) {
			if current >= 0 && next <= current { // the worker died inside case `current` (e.g. fatal stack overflow)
				if building >= 0 {
					ev.Emit(obj{"op": "build", "a": trees[building].JSON(), "out": "crash", "msg": "worker process died while constructing the object", "case": current})
					outcomes["crash"]++
					skipped = append(skipped, fmt.Sprint(building))
					building = -1
					next = current
				} else {
					emit(current, obj{"out": "crash", "msg": "worker process died"})
					next = current + 1
				}
			}
			restarts++
			if restarts > 60 {
				// every restart so far followed a crash or a time-out that has been recorded as an event: the verdict is
				// already decided by those; the rest of the sweep is not run (and the summary says so)
				if outcomes["crash"]+outcomes["timeout"] >= 60 {
					truncated = next
					break
				}
				return fmt.Errorf("too many worker restarts")
			}
		}
	}
	printJSON(obj{"cases": len(cases), "sweep_stopped_at_case_after_60_crashes_or_timeouts": truncated, "by_kind": counts, "outcomes": outcomes, "events": ev.N, "worker_restarts": restarts, "objects": len(trees), "objects_left_out_after_failed_construction": len(skipped)})
	return nil
}
