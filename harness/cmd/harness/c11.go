package main

import (
	"encoding/json"
	"fmt"
	"math"
	"math/big"
	"math/rand"
	"strings"
	"sync"

	"github.com/tidwall/geojson"
	"github.com/tidwall/geojson/geometry"
)

// c11 <casefiles> <outdir> <seed> <nrandom>
func init() { commands["c11"] = c11 }

type obs struct {
	Empty bool
	Rect  []float64
	C2    []float64
	Valid bool
	N     int
}

func observe(o geojson.Object) obs {
	r := o.Rect()
	c := o.Center()
	return obs{o.Empty(), []float64{r.Min.X, r.Min.Y, r.Max.X, r.Max.Y}, []float64{2 * c.X, 2 * c.Y}, o.Valid(), o.NumPoints()}
}

func feq(a []float64, b []int) bool {
	if len(a) != len(b) {
		return false
	}
	for i := range a {
		if a[i] != float64(b[i]) {
			return false
		}
	}
	return true
}

var parseOptSets = []geojson.ParseOptions{
	{IndexChildren: 64, IndexGeometry: 64, IndexGeometryKind: geometry.QuadTree},
	{IndexChildren: 1, IndexGeometry: 1, IndexGeometryKind: geometry.RTree},
	{IndexChildren: 0, IndexGeometry: 0, IndexGeometryKind: geometry.None},
	{IndexChildren: 2, IndexGeometry: 3, IndexGeometryKind: geometry.QuadTree, AllowSimplePoints: true, AllowRects: true},
}

func c11(args []string) error {
	if len(args) != 4 {
		return fmt.Errorf("usage: c11 casefiles outdir seed nrandom")
	}
	outdir := args[1]
	seed, nrandom := atoi(args[2]), atoi(args[3])
	ev, err := newEvents(outdir + "/c11.events.ndjson")
	if err != nil {
		return err
	}
	defer ev.Close()
	rng := rand.New(rand.NewSource(int64(seed)))
	var evals, mism, rows, parsed int64
	var mu sync.Mutex
	var wg sync.WaitGroup
	work := make(chan []byte, 1024)
	for w := 0; w < 16; w++ {
		wg.Add(1)
		go func() {
			defer wg.Done()
			var le, lm, lr, lp int64
			for line := range work {
				var raw []json.RawMessage
				if err := json.Unmarshal(line, &raw); err != nil {
					panic(err)
				}
				t, err := parseTree(raw[1])
				if err != nil {
					panic(err)
				}
				var tag string
				json.Unmarshal(raw[0], &tag)
				if tag == "C11V" { // non-finite ordinates: only Empty / Valid / NumPoints are stated
					var empty, valid, n int
					json.Unmarshal(raw[2], &empty)
					json.Unmarshal(raw[3], &valid)
					json.Unmarshal(raw[4], &n)
					lr++
					checkV := func(o geojson.Object, via string, skipN bool) {
						le += 3
						bad := func(what string, g, e interface{}) {
							lm++
							ev.Emit(obj{"op": what, "tree": t.JSON(), "got": g, "exp": e, "via": via, "src": "replay"})
						}
						if g := o.Empty(); g != (empty == 1) {
							bad("empty", g, empty == 1)
						}
						if g := o.Valid(); g != (valid == 1) {
							bad("valid", g, valid == 1)
						}
						if g := o.NumPoints(); !skipN && g != n {
							bad("npoints", g, n)
						}
					}
					for ci := range indexConfigs {
						checkV(t.Build(SpecialMap, &indexConfigs[ci]), fmt.Sprintf("constructors/index%d", ci), false)
					}
					text := t.Render(Identity)
					if !strings.Contains(text, "1000002") && !strings.Contains(text, "1000003") {
						text = strings.ReplaceAll(text, "1000001", "null") // a null ordinate is read as NaN
						for pi := range parseOptSets {
							if o, err := geojson.Parse(text, &parseOptSets[pi]); err == nil {
								lp++
								checkV(o, fmt.Sprintf("parse/opts%d/null-ordinate", pi), true)
							}
						}
					}
					continue
				}
				var empty, valid, n int
				var rect, c2 []int
				json.Unmarshal(raw[2], &empty)
				json.Unmarshal(raw[3], &rect)
				json.Unmarshal(raw[4], &c2)
				json.Unmarshal(raw[5], &valid)
				json.Unmarshal(raw[6], &n)
				lr++
				check := func(o geojson.Object, via string, skipN bool) {
					got := observe(o)
					le += 5
					bad := func(what string, g, e interface{}) {
						lm++
						ev.Emit(obj{"op": what, "tree": t.JSON(), "got": g, "exp": e, "via": via, "src": "replay"})
					}
					if got.Empty != (empty == 1) {
						bad("empty", got.Empty, empty == 1)
					}
					if empty == 0 {
						if !feq(got.Rect, rect) {
							bad("rect", got.Rect, rect)
						}
						if !feq(got.C2, c2) {
							bad("center2", got.C2, c2)
						}
					}
					if got.Valid != (valid == 1) {
						bad("valid", got.Valid, valid == 1)
					}
					if !skipN && got.N != n {
						bad("npoints", got.N, n)
					}
				}
				for ci := range indexConfigs {
					check(t.Build(Identity, &indexConfigs[ci]), fmt.Sprintf("constructors/index%d", ci), false)
				}
				text := t.Render(Identity)
				for pi := range parseOptSets {
					o, err := geojson.Parse(text, &parseOptSets[pi])
					if err != nil {
						continue // documents outside Parse's grammar (short lines, unclosed rings) are judged by C07
					}
					lp++
					check(o, fmt.Sprintf("parse/opts%d", pi), true)
				}
				// the same document with a loose "bbox" member on every object: Rect() is computed from the positions
				if lr%3 == 0 {
					loose := strings.ReplaceAll(text, `{"type":`, `{"bbox":[-170,-80,170,80],"type":`)
					if o, err := geojson.Parse(loose, &parseOptSets[int(lr)%len(parseOptSets)]); err == nil {
						lp++
						check(o, "parse/loose-bbox-members", true)
					}
				}
			}
			mu.Lock()
			evals += le
			mism += lm
			rows += lr
			parsed += lp
			mu.Unlock()
		}()
	}
	for _, cf := range splitComma(args[0]) {
		if err := readLines(cf, func(line []byte) error {
			work <- append([]byte{}, line...)
			return nil
		}); err != nil {
			return err
		}
	}
	close(work)
	wg.Wait()

	recorded := 0
	for k := 0; k < nrandom; k++ {
		t := randomTree(rng, 3, 200, 100)
		opts := indexConfigs[rng.Intn(3)]
		var o geojson.Object
		via := "constructors"
		if rng.Intn(2) == 0 {
			po := parseOptSets[rng.Intn(len(parseOptSets))]
			if p, err := geojson.Parse(t.Render(Identity), &po); err == nil {
				o = p
				via = "parse"
			}
		}
		if o == nil {
			o = t.Build(Identity, &opts)
		}
		got := observe(o)
		ev.Emit(obj{"op": "empty", "tree": t.JSON(), "got": got.Empty, "via": via, "src": "rec"})
		ev.Emit(obj{"op": "valid", "tree": t.JSON(), "got": got.Valid, "via": via, "src": "rec"})
		if !got.Empty {
			ev.Emit(obj{"op": "rect", "tree": t.JSON(), "got": got.Rect, "via": via, "src": "rec"})
			ev.Emit(obj{"op": "center2", "tree": t.JSON(), "got": got.C2, "via": via, "src": "rec"})
		}
		if via == "constructors" {
			ev.Emit(obj{"op": "npoints", "tree": t.JSON(), "got": got.N, "via": via, "src": "rec"})
		}
		recorded += 4
	}
	// decimal coordinates: L1 says Center = (min + max) / 2 over the reals and Rect = (min, max); for float64 values that
	// are not small integers the answer must be the float64 nearest to the exact midpoint of the two float64 extremes
	// (exact rational arithmetic, math/big); the lattice families cannot tell formulas apart that differ only in rounding
	fl, err := newEvents(outdir + "/c11.float.ndjson")
	if err != nil {
		return err
	}
	defer fl.Close()
	floatCases, floatMism := 0, 0
	mid := func(a, b float64) float64 {
		r := new(big.Rat).Add(new(big.Rat).SetFloat64(a), new(big.Rat).SetFloat64(b))
		f, _ := r.Quo(r, big.NewRat(2, 1)).Float64()
		return f
	}
	for k := 0; k < 6000; k++ {
		d := []float64{10, 100, 1e5, 1e7, 3, 1e15}[k%6]
		val := func(lim float64) float64 { return math.Round((rng.Float64()*2-1)*lim*d) / d }
		x1, x2, y1, y2 := val(180), val(180), val(90), val(90)
		if k%7 == 0 {
			x2 = -x1 + 1/d // nearly symmetric about zero: the sum cancels
		}
		if k%11 == 0 { // subnormal and huge magnitudes whose midpoint is a float64 (halving each term first would round)
			ext := [][2]float64{{5e-324, 5e-324}, {5e-324, 1.5e-323}, {-5e-324, 5e-324}, {1e308, -1e308}, {-1.5e-323, -5e-324}, {1e-320, 3e-320}, {2.5e-323, 2.5e-323}}[k/11%7]
			x1, x2 = ext[0], ext[1]
			y1, y2 = ext[1], ext[0]
		}
		pts := []geometry.Point{{X: x1, Y: y1}, {X: x2, Y: y2}}
		minx, maxx, miny, maxy := math.Min(x1, x2), math.Max(x1, x2), math.Min(y1, y2), math.Max(y1, y2)
		var o geojson.Object
		kind := []string{"Rect", "LineString", "MultiPoint", "Polygon", "Feature(LineString)", "Parse(LineString)"}[k%6]
		switch k % 6 {
		case 0:
			o = geojson.NewRect(geometry.Rect{Min: geometry.Point{X: minx, Y: miny}, Max: geometry.Point{X: maxx, Y: maxy}})
		case 1:
			o = geojson.NewLineString(geometry.NewLine(pts, nil))
		case 2:
			o = geojson.NewMultiPoint(pts)
		case 3:
			o = geojson.NewPolygon(geometry.NewPoly([]geometry.Point{pts[0], {X: x2, Y: y1}, pts[1], pts[0]}, nil, nil))
		case 4:
			o = geojson.NewFeature(geojson.NewLineString(geometry.NewLine(pts, nil)), "")
		default:
			text := fmt.Sprintf(`{"type":"LineString","coordinates":[[%s,%s],[%s,%s]]}`, fnum(x1), fnum(y1), fnum(x2), fnum(y2))
			p, perr := geojson.Parse(text, nil)
			if perr != nil {
				continue
			}
			o = p
		}
		floatCases++
		r, c := o.Rect(), o.Center()
		wantC := geometry.Point{X: mid(minx, maxx), Y: mid(miny, maxy)}
		if r.Min.X != minx || r.Min.Y != miny || r.Max.X != maxx || r.Max.Y != maxy || c != wantC {
			floatMism++
			if floatMism <= 50 {
				fl.Emit(obj{"kind": kind, "points": [][]float64{{x1, y1}, {x2, y2}}, "rect": []float64{r.Min.X, r.Min.Y, r.Max.X, r.Max.Y}, "center": []float64{c.X, c.Y},
					"exact_center": []float64{wantC.X, wantC.Y}})
			}
		}
	}
	// Circles: Rect() is the tight box of the positions of the polygon approximation, whatever the number of steps, and Center() the centre
	for k := 0; k < 300; k++ {
		steps := []int{3, 5, 6, 7, 12, 63, 64, 100}[k%8]
		ctr := geometry.Point{X: math.Round((rng.Float64()*300-150)*100) / 100, Y: math.Round((rng.Float64()*120-60)*100) / 100}
		c := geojson.NewCircle(ctr, math.Pow(10, rng.Float64()*5+1), steps)
		poly, ok := c.Polygon().(*geojson.Polygon)
		if !ok {
			continue
		}
		ext := poly.Base().Exterior
		minx, miny, maxx, maxy := math.Inf(1), math.Inf(1), math.Inf(-1), math.Inf(-1)
		for i := 0; i < ext.NumPoints(); i++ {
			p := ext.PointAt(i)
			minx, miny, maxx, maxy = math.Min(minx, p.X), math.Min(miny, p.Y), math.Max(maxx, p.X), math.Max(maxy, p.Y)
		}
		floatCases++
		r := c.Rect()
		if r.Min.X != minx || r.Min.Y != miny || r.Max.X != maxx || r.Max.Y != maxy || c.Center() != ctr {
			floatMism++
			if floatMism <= 50 {
				fl.Emit(obj{"kind": fmt.Sprintf("Circle(%d steps, %v m)", steps, c.Meters()), "points": [][]float64{{ctr.X, ctr.Y}}, "rect": []float64{r.Min.X, r.Min.Y, r.Max.X, r.Max.Y},
					"center": []float64{c.Center().X, c.Center().Y}, "exact_center": []float64{minx, miny, maxx, maxy}})
			}
		}
	}
	printJSON(obj{"rows": rows, "evaluations": evals, "mismatches": mism, "recorded": recorded, "events": ev.N, "parsed_ok": parsed, "float_cases": floatCases, "float_mismatches": floatMism})
	return nil
}

// randomTree draws an object tree with integer coordinates in [-ex,ex]x[-ey,ey].
func randomTree(rng *rand.Rand, depth, ex, ey int) Tree {
	p := func() []int {
		switch rng.Intn(6) {
		case 0:
			return []int{[]int{-181, -180, 180, 181}[rng.Intn(4)], rng.Intn(2*ey+1) - ey}
		case 1:
			return []int{rng.Intn(2*ex+1) - ex, []int{-91, -90, 90, 91}[rng.Intn(4)]}
		}
		return []int{rng.Intn(361) - 180, rng.Intn(181) - 90}
	}
	pts := func(min, max int) [][]int {
		n := min + rng.Intn(max-min+1)
		out := make([][]int, n)
		for i := range out {
			out[i] = p()
		}
		return out
	}
	ring := func() [][]int {
		r := pts(3, 6)
		return append(r, r[0])
	}
	holed := func() [][][]int {
		ext := ring()
		rs := [][][]int{ext}
		// holes inside the bounding box of the exterior (valid GeoJSON keeps holes inside)
		minx, miny, maxx, maxy := ext[0][0], ext[0][1], ext[0][0], ext[0][1]
		for _, q := range ext {
			if q[0] < minx {
				minx = q[0]
			}
			if q[0] > maxx {
				maxx = q[0]
			}
			if q[1] < miny {
				miny = q[1]
			}
			if q[1] > maxy {
				maxy = q[1]
			}
		}
		for h := rng.Intn(3); h > 0; h-- {
			var hr [][]int
			for i := 0; i < 3; i++ {
				hr = append(hr, []int{minx + rng.Intn(maxx-minx+1), miny + rng.Intn(maxy-miny+1)})
			}
			rs = append(rs, append(hr, hr[0]))
		}
		return rs
	}
	kinds := []string{"Point", "SimplePoint", "LineString", "Polygon", "Rect", "MultiPoint", "MultiLineString", "MultiPolygon"}
	if depth > 0 {
		kinds = append(kinds, "GeometryCollection", "FeatureCollection", "Feature", "GeometryCollection", "Feature")
	}
	switch k := kinds[rng.Intn(len(kinds))]; k {
	case "Point", "SimplePoint":
		return Tree{Kind: k, P: p()}
	case "LineString":
		return Tree{Kind: k, Pts: pts(1, 6)}
	case "Polygon":
		if rng.Intn(5) == 0 {
			return Tree{Kind: k, Rings: [][][]int{pts(1, 4)}}
		}
		return Tree{Kind: k, Rings: holed()}
	case "Rect":
		a, b := p(), p()
		if a[0] > b[0] {
			a[0], b[0] = b[0], a[0]
		}
		if a[1] > b[1] {
			a[1], b[1] = b[1], a[1]
		}
		return Tree{Kind: k, Min: a, Max: b}
	case "MultiPoint":
		return Tree{Kind: k, Pts: pts(0, 5)}
	case "MultiLineString":
		t := Tree{Kind: k}
		for i := rng.Intn(4); i > 0; i-- {
			t.Rings = append(t.Rings, pts(1, 5))
		}
		return t
	case "MultiPolygon":
		t := Tree{Kind: k}
		for i := rng.Intn(4); i > 0; i-- {
			t.Polys = append(t.Polys, holed())
		}
		return t
	case "Feature":
		return Tree{Kind: k, Kids: []Tree{randomTree(rng, depth-1, ex, ey)}}
	default:
		t := Tree{Kind: k}
		for i := rng.Intn(5); i > 0; i-- {
			t.Kids = append(t.Kids, randomTree(rng, depth-1, ex, ey))
		}
		return t
	}
}

func init() {
	commands["c11one"] = func(args []string) error {
		var e struct {
			Op   string
			Tree json.RawMessage
			Via  string
		}
		if err := json.Unmarshal([]byte(args[0]), &e); err != nil {
			return err
		}
		t, err := parseTree(e.Tree)
		if err != nil {
			return err
		}
		var o geojson.Object
		if len(e.Via) >= 5 && e.Via[:5] == "parse" {
			o, err = geojson.Parse(t.Render(Identity), &parseOptSets[0])
			if err != nil {
				return err
			}
		} else {
			o = t.Build(Identity, &indexConfigs[0])
		}
		got := observe(o)
		var g interface{}
		switch e.Op {
		case "empty":
			g = got.Empty
		case "valid":
			g = got.Valid
		case "rect":
			g = got.Rect
		case "center2":
			g = got.C2
		case "npoints":
			g = got.N
		}
		printJSON(obj{"got": g})
		return nil
	}
}
