package main

import (
	"encoding/json"
	"fmt"
	"math"
	"strconv"
	"strings"

	"github.com/tidwall/geojson"
	"github.com/tidwall/geojson/geometry"
)

// Tree mirrors the object-tree tuples of spec/Objects.tla.
type Tree struct {
	Kind  string
	P     []int       // Point, SimplePoint, Circle centre
	Min   []int       // Rect
	Max   []int       // Rect
	Pts   [][]int     // LineString, MultiPoint
	Rings [][][]int   // Polygon; MultiLineString lines
	Polys [][][][]int // MultiPolygon
	Kids  []Tree      // GeometryCollection, FeatureCollection; Feature (one kid)
	Z     int         // PointZ
	R     int         // Circle radius (lattice units)
	Steps int         // Circle steps
}

func parseTree(raw json.RawMessage) (Tree, error) {
	var parts []json.RawMessage
	var t Tree
	if err := json.Unmarshal(raw, &parts); err != nil {
		return t, err
	}
	if err := json.Unmarshal(parts[0], &t.Kind); err != nil {
		return t, err
	}
	var err error
	switch t.Kind {
	case "Point", "SimplePoint":
		err = json.Unmarshal(parts[1], &t.P)
	case "PointZ":
		if err = json.Unmarshal(parts[1], &t.P); err == nil {
			err = json.Unmarshal(parts[2], &t.Z)
		}
	case "Rect":
		if err = json.Unmarshal(parts[1], &t.Min); err == nil {
			err = json.Unmarshal(parts[2], &t.Max)
		}
	case "LineString", "MultiPoint":
		err = json.Unmarshal(parts[1], &t.Pts)
	case "Polygon", "MultiLineString":
		err = json.Unmarshal(parts[1], &t.Rings)
	case "MultiPolygon":
		err = json.Unmarshal(parts[1], &t.Polys)
	case "GeometryCollection", "FeatureCollection":
		var kids []json.RawMessage
		if err = json.Unmarshal(parts[1], &kids); err == nil {
			for _, k := range kids {
				kt, e := parseTree(k)
				if e != nil {
					return t, e
				}
				t.Kids = append(t.Kids, kt)
			}
		}
	case "Feature":
		kt, e := parseTree(parts[1])
		if e != nil {
			return t, e
		}
		t.Kids = []Tree{kt}
	case "Circle":
		if err = json.Unmarshal(parts[1], &t.P); err == nil {
			if err = json.Unmarshal(parts[2], &t.R); err == nil {
				err = json.Unmarshal(parts[3], &t.Steps)
			}
		}
	default:
		err = fmt.Errorf("unknown object kind %q", t.Kind)
	}
	return t, err
}

func nn2(a [][]int) [][]int {
	if a == nil {
		return [][]int{}
	}
	return a
}
func nn3(a [][][]int) [][][]int {
	if a == nil {
		return [][][]int{}
	}
	out := make([][][]int, len(a))
	for i := range a {
		out[i] = nn2(a[i])
	}
	return out
}

// JSON is the tuple encoding (for events).
func (t Tree) JSON() interface{} {
	switch t.Kind {
	case "Point", "SimplePoint":
		return []interface{}{t.Kind, t.P}
	case "PointZ":
		return []interface{}{t.Kind, t.P, t.Z}
	case "Rect":
		return []interface{}{t.Kind, t.Min, t.Max}
	case "LineString", "MultiPoint":
		return []interface{}{t.Kind, nn2(t.Pts)}
	case "Polygon", "MultiLineString":
		return []interface{}{t.Kind, nn3(t.Rings)}
	case "MultiPolygon":
		ps := make([][][][]int, len(t.Polys))
		for i := range t.Polys {
			ps[i] = nn3(t.Polys[i])
		}
		return []interface{}{t.Kind, ps}
	case "Feature":
		return []interface{}{t.Kind, t.Kids[0].JSON()}
	case "Circle":
		return []interface{}{t.Kind, t.P, t.R, t.Steps}
	default:
		kids := make([]interface{}, len(t.Kids))
		for i := range t.Kids {
			kids[i] = t.Kids[i].JSON()
		}
		return []interface{}{t.Kind, kids}
	}
}

func polyOf(mp Map, rings [][][]int, opts *geometry.IndexOptions) *geometry.Poly {
	if len(rings) == 0 {
		return nil
	}
	var holes [][]geometry.Point
	for _, h := range rings[1:] {
		holes = append(holes, mapPts(mp, h))
	}
	return geometry.NewPoly(mapPts(mp, rings[0]), holes, opts)
}

// Build constructs the object through the public constructors.
func (t Tree) Build(mp Map, opts *geometry.IndexOptions) geojson.Object {
	switch t.Kind {
	case "Point":
		return geojson.NewPoint(mp.P(t.P[0], t.P[1]))
	case "SimplePoint":
		return geojson.NewSimplePoint(mp.P(t.P[0], t.P[1]))
	case "PointZ":
		return geojson.NewPointZ(mp.P(t.P[0], t.P[1]), mp.P(t.Z, 0).X)
	case "Rect":
		return geojson.NewRect(geometry.Rect{Min: mp.P(t.Min[0], t.Min[1]), Max: mp.P(t.Max[0], t.Max[1])})
	case "LineString":
		return geojson.NewLineString(geometry.NewLine(mapPts(mp, t.Pts), opts))
	case "Polygon":
		return geojson.NewPolygon(polyOf(mp, t.Rings, opts))
	case "MultiPoint":
		return geojson.NewMultiPoint(mapPts(mp, t.Pts))
	case "MultiLineString":
		var ls []*geometry.Line
		for _, l := range t.Rings {
			ls = append(ls, geometry.NewLine(mapPts(mp, l), opts))
		}
		return geojson.NewMultiLineString(ls)
	case "MultiPolygon":
		var ps []*geometry.Poly
		for _, p := range t.Polys {
			ps = append(ps, polyOf(mp, p, opts))
		}
		return geojson.NewMultiPolygon(ps)
	case "GeometryCollection", "FeatureCollection":
		var kids []geojson.Object
		for _, k := range t.Kids {
			kids = append(kids, k.Build(mp, opts))
		}
		if t.Kind == "GeometryCollection" {
			return geojson.NewGeometryCollection(kids)
		}
		return geojson.NewFeatureCollection(kids)
	case "Feature":
		return geojson.NewFeature(t.Kids[0].Build(mp, opts), "")
	case "Circle":
		r := mp.P(t.R, 0).X
		if t.R == -999 {
			r = math.NaN()
		}
		return geojson.NewCircle(mp.P(t.P[0], t.P[1]), r, t.Steps)
	}
	panic("unknown kind " + t.Kind)
}

func fnum(f float64) string { return strconv.FormatFloat(f, 'f', -1, 64) }

func renderPos(mp Map, p []int) string {
	q := mp.P(p[0], p[1])
	return "[" + fnum(q.X) + "," + fnum(q.Y) + "]"
}
func renderPts(mp Map, ps [][]int) string {
	var sb strings.Builder
	sb.WriteByte('[')
	for i, p := range ps {
		if i > 0 {
			sb.WriteByte(',')
		}
		sb.WriteString(renderPos(mp, p))
	}
	sb.WriteByte(']')
	return sb.String()
}
func renderRings(mp Map, rs [][][]int) string {
	var sb strings.Builder
	sb.WriteByte('[')
	for i, r := range rs {
		if i > 0 {
			sb.WriteByte(',')
		}
		sb.WriteString(renderPts(mp, r))
	}
	sb.WriteByte(']')
	return sb.String()
}

// Render writes the tree as standard GeoJSON text, independently of the
// library's own writers (Rect as its five-point polygon, SimplePoint as Point).
func (t Tree) Render(mp Map) string {
	switch t.Kind {
	case "Point", "SimplePoint":
		return `{"type":"Point","coordinates":` + renderPos(mp, t.P) + `}`
	case "Rect":
		ring := [][]int{t.Min, {t.Max[0], t.Min[1]}, t.Max, {t.Min[0], t.Max[1]}, t.Min}
		return `{"type":"Polygon","coordinates":[` + renderPts(mp, ring) + `]}`
	case "LineString":
		return `{"type":"LineString","coordinates":` + renderPts(mp, t.Pts) + `}`
	case "MultiPoint":
		return `{"type":"MultiPoint","coordinates":` + renderPts(mp, t.Pts) + `}`
	case "Polygon":
		return `{"type":"Polygon","coordinates":` + renderRings(mp, t.Rings) + `}`
	case "MultiLineString":
		return `{"type":"MultiLineString","coordinates":` + renderRings(mp, t.Rings) + `}`
	case "MultiPolygon":
		var sb strings.Builder
		sb.WriteString(`{"type":"MultiPolygon","coordinates":[`)
		for i, p := range t.Polys {
			if i > 0 {
				sb.WriteByte(',')
			}
			sb.WriteString(renderRings(mp, p))
		}
		sb.WriteString(`]}`)
		return sb.String()
	case "GeometryCollection", "FeatureCollection":
		key := "geometries"
		if t.Kind == "FeatureCollection" {
			key = "features"
		}
		var sb strings.Builder
		sb.WriteString(`{"type":"` + t.Kind + `","` + key + `":[`)
		for i, k := range t.Kids {
			if i > 0 {
				sb.WriteByte(',')
			}
			sb.WriteString(k.Render(mp))
		}
		sb.WriteString(`]}`)
		return sb.String()
	case "Feature":
		return `{"type":"Feature","geometry":` + t.Kids[0].Render(mp) + `,"properties":{}}`
	case "Circle":
		return `{"type":"Feature","geometry":` + `{"type":"Point","coordinates":` + renderPos(mp, t.P) + `},"properties":{"type":"Circle","radius":` + strconv.Itoa(t.R) + `,"radius_units":"m"}}`
	}
	panic("unknown kind " + t.Kind)
}
