package main

import (
	"encoding/json"
	"fmt"
	"math"
	"math/rand"
	"strings"
	"sync"
	"sync/atomic"

	"github.com/tidwall/geojson"
	"github.com/tidwall/geojson/geo"
	"github.com/tidwall/geojson/geometry"
)

// c0910 <objrel.lines> <outdir> <seed> <tier>
//
// Replays the Gen_Obj universe: object facts (C10: empty, rectangle, children
// order, child search with and without the child index) and every relation
// a x b (C09/C10: intersects / contains / within in both call directions),
// plus law events over pairs that involve Circles (C09).
func init() { commands["c0910"] = c0910 }

type uobj struct {
	idx    int
	tree   Tree
	empty  bool
	rect   []int
	search [][]int
	core   bool
}

func c0910(args []string) error {
	if len(args) != 4 {
		return fmt.Errorf("usage: c0910 rows outdir seed tier")
	}
	seed, tier := atoi(args[2]), args[3]
	objs := map[int]*uobj{}
	type relRow struct {
		a     int
		codes [][]int
	}
	var rels []relRow
	if err := readLines(args[0], func(line []byte) error {
		var raw []json.RawMessage
		if err := json.Unmarshal(line, &raw); err != nil {
			return err
		}
		var tag string
		json.Unmarshal(raw[0], &tag)
		switch tag {
		case "OBJ":
			o := &uobj{}
			json.Unmarshal(raw[1], &o.idx)
			t, err := parseTree(raw[2])
			if err != nil {
				return err
			}
			o.tree = t
			var e, c int
			json.Unmarshal(raw[3], &e)
			o.empty = e == 1
			json.Unmarshal(raw[4], &o.rect)
			json.Unmarshal(raw[5], &o.search)
			json.Unmarshal(raw[6], &c)
			o.core = c == 1
			objs[o.idx] = o
		case "REL":
			var r relRow
			json.Unmarshal(raw[1], &r.a)
			json.Unmarshal(raw[2], &r.codes)
			rels = append(rels, r)
		}
		return nil
	}); err != nil {
		return err
	}
	ev, err := newEvents(args[1] + "/c0910.events.ndjson")
	if err != nil {
		return err
	}
	defer ev.Close()
	rng := rand.New(rand.NewSource(int64(seed)))
	queries := [][]int{{0, 0, 3, 3}, {0, 0, 0, 0}, {1, 1, 2, 2}, {3, 0, 3, 3}, {-5, -5, -4, -4}, {2, 2, 2, 2}, {0, 3, 3, 3}, {-9, -9, 9, 9}}

	// variants of one object: constructors, and Parse under child-index thresholds off / 1 / count / count+1 / default
	variants := func(o *uobj) []geojson.Object {
		out := []geojson.Object{o.tree.Build(Identity, &indexConfigs[0])}
		n := len(o.tree.Kids) + len(o.tree.Pts) + len(o.tree.Rings) + len(o.tree.Polys)
		text := o.tree.Render(Identity)
		for _, ic := range []int{0, 1, n, n + 1, 64} {
			po := geojson.ParseOptions{IndexChildren: ic, IndexGeometry: 64, IndexGeometryKind: geometry.QuadTree}
			if p, err := geojson.Parse(text, &po); err == nil {
				out = append(out, p)
			}
		}
		// the same document with a loose "bbox" member on every object: a bbox member is a foreign member, the rectangle
		// of an object is computed from its positions
		loose := strings.ReplaceAll(text, `{"type":`, `{"bbox":[-170,-80,170,80],"type":`)
		for _, ic := range []int{0, 1, 64} {
			po := geojson.ParseOptions{IndexChildren: ic, IndexGeometry: 64, IndexGeometryKind: geometry.QuadTree}
			if p, err := geojson.Parse(loose, &po); err == nil {
				out = append(out, p)
			}
		}
		return out
	}
	var facts, factMism int64
	built := map[int][]geojson.Object{}
	for idx, o := range objs {
		vs := variants(o)
		built[idx] = vs
		for vi, real := range vs {
			facts += 3
			bad := func(what string, got, exp interface{}) {
				factMism++
				ev.Emit(obj{"op": "fact", "what": what, "tree": o.tree.JSON(), "variant": vi, "got": got, "exp": exp})
			}
			if real.Empty() != o.empty {
				bad("empty", real.Empty(), o.empty)
			}
			if !o.empty {
				r := real.Rect()
				if !feq([]float64{r.Min.X, r.Min.Y, r.Max.X, r.Max.Y}, o.rect) {
					bad("rect", []float64{r.Min.X, r.Min.Y, r.Max.X, r.Max.Y}, o.rect)
				}
			}
			// the point count of a collection is the sum of its children's counts
			if c, ok := real.(geojson.Collection); ok {
				sum := 0
				for _, ch := range c.Children() {
					sum += ch.NumPoints()
				}
				facts++
				if real.NumPoints() != sum {
					bad("npoints", real.NumPoints(), sum)
				}
			}
			// children keep document order (projection of the real object equals the tree)
			pj, _ := json.Marshal(project(real))
			want, _ := json.Marshal(project(o.tree.Build(Identity, &indexConfigs[0])))
			if vi > 0 && string(pj) != string(want) {
				bad("children", json.RawMessage(pj), json.RawMessage(want))
			}
			// ForEach yields the parts in document order and stops when asked to (also across nested collections)
			var seen []geojson.Object
			real.ForEach(func(g geojson.Object) bool { seen = append(seen, g); return true })
			for stop := 1; stop <= len(seen) && stop <= 3; stop++ {
				facts++
				n := 0
				ret := real.ForEach(func(g geojson.Object) bool { n++; return n < stop })
				if n != stop || ret {
					bad("foreach-stop", fmt.Sprintf("callbacks=%d returned=%v", n, ret), fmt.Sprintf("callbacks=%d returned=false", stop))
				}
			}
			coll, isColl := real.(geojson.Collection)
			if f, ok := real.(*geojson.Feature); ok {
				coll, isColl = f.Base().(geojson.Collection)
			}
			if isColl && len(o.search) == len(queries) {
				kids := coll.Children()
				for qi, q := range queries {
					for _, stop := range []int{0, 1, 2} {
						facts++
						var hits []int
						after := 0
						stopped := false
						coll.Search(geometry.Rect{Min: geometry.Point{X: float64(q[0]), Y: float64(q[1])}, Max: geometry.Point{X: float64(q[2]), Y: float64(q[3])}},
							func(c geojson.Object) bool {
								if stopped {
									after++
									return false
								}
								k := -1
								for i := range kids {
									if kids[i] == c {
										k = i + 1
									}
								}
								hits = append(hits, k)
								if stop > 0 && len(hits) == stop {
									stopped = true
									return false
								}
								return true
							})
						if !searchOK(hits, o.search[qi], stop, after) {
							factMism++
							ev.Emit(obj{"op": "fact", "what": "search", "tree": o.tree.JSON(), "variant": vi, "q": q, "stop": stop, "got": nonNilInts(hits), "exp": o.search[qi], "after": after, "indexed": coll.Indexed()})
						}
					}
				}
			}
		}
	}

	// relations
	var evals, mism int64
	var wg sync.WaitGroup
	sem := make(chan struct{}, 16)
	stride := 1
	if tier != "thorough" {
		stride = 2
	}
	for _, r := range rels {
		r := r
		wg.Add(1)
		sem <- struct{}{}
		wrng := rand.New(rand.NewSource(int64(seed)*31 + int64(r.a)))
		go func() {
			defer func() { <-sem; wg.Done() }()
			A := objs[r.a]
			for bi, code := range r.codes {
				if stride > 1 && (bi+r.a+seed)%stride != 0 {
					continue
				}
				B := objs[bi+1]
				l1, l2 := code[0], code[1]
				va := built[r.a][wrng.Intn(len(built[r.a]))]
				vb := built[bi+1][wrng.Intn(len(built[bi+1]))]
				calls := []struct {
					name string
					bit  int
					fn   func() bool
				}{
					{"A.Intersects(B)", 1, func() bool { return va.Intersects(vb) }},
					{"B.Intersects(A)", 1, func() bool { return vb.Intersects(va) }},
					{"A.Contains(B)", 2, func() bool { return va.Contains(vb) }},
					{"B.Within(A)", 2, func() bool { return vb.Within(va) }},
					{"A.Within(B)", 4, func() bool { return va.Within(vb) }},
					{"B.Contains(A)", 4, func() bool { return vb.Contains(va) }},
				}
				var reals [6]string
				for ci, c := range calls {
					atomic.AddInt64(&evals, 1)
					got, out := guarded(c.fn)
					reals[ci] = fmt.Sprint(got, out)
					exp := l1&c.bit != 0
					if out == "ok" && got == exp {
						continue
					}
					atomic.AddInt64(&mism, 1)
					ev.Emit(obj{"op": "rel", "call": c.name, "A": A.tree.JSON(), "B": B.tree.JSON(), "got": got, "out": out, "exp": exp, "l2": l2&c.bit != 0, "a": r.a, "b": bi + 1})
				}
				// the dualities relate the real answers to each other, whatever L1 says: A.Intersects(B) = B.Intersects(A),
				// A.Contains(B) = B.Within(A), A.Within(B) = B.Contains(A)
				for k := 0; k < 6; k += 2 {
					if reals[k] != reals[k+1] {
						atomic.AddInt64(&mism, 1)
						ev.Emit(obj{"op": "dual", "calls": calls[k].name + " / " + calls[k+1].name, "A": A.tree.JSON(), "B": B.tree.JSON(), "r1": reals[k], "r2": reals[k+1]})
					}
				}
			}
		}()
	}
	wg.Wait()

	// law events over pairs involving Circles (no L1 for the disc: the laws relate real answers to each other)
	circles := []Tree{
		{Kind: "Circle", P: []int{1, 1}, R: 10, Steps: 64}, {Kind: "Circle", P: []int{1, 1}, R: 600000, Steps: 64},
		{Kind: "Circle", P: []int{2, 2}, R: 1000, Steps: 12}, {Kind: "Circle", P: []int{40, 40}, R: 1000, Steps: 64},
		{Kind: "Circle", P: []int{1, 1}, R: 0, Steps: 64}, {Kind: "Circle", P: []int{1, 1}, R: 200000, Steps: 32},
	}
	laws := 0
	var others []*uobj
	for _, o := range objs {
		if o.core {
			others = append(others, o)
		}
	}
	selfLaw := false
	emitLaw := func(ta, tb Tree, a, b geojson.Object) {
		e := obj{"op": "law", "A": ta.JSON(), "B": tb.JSON()}
		_, out := guarded(func() bool {
			ra, rb := a.Rect(), b.Rect()
			e["AcB"], e["BwA"], e["AiB"], e["BiA"] = a.Contains(b), b.Within(a), a.Intersects(b), b.Intersects(a)
			e["AwB"], e["BcA"] = a.Within(b), b.Contains(a)
			e["emptyA"], e["emptyB"], e["validA"] = a.Empty(), b.Empty(), a.Valid()
			e["rectAcoversB"] = ra.ContainsRect(rb)
			e["rectsMeet"] = ra.IntersectsRect(rb)
			e["AcA"], e["AiA"] = true, true
			if _, isCircle := a.(*geojson.Circle); isCircle || selfLaw { // self containment of the other objects is judged against L1 in the relation rows
				e["AcA"], e["AiA"] = a.Contains(a), a.Intersects(a)
			}
			return true
		})
		e["out"] = out
		ev.Emit(e)
		laws++
	}
	for _, ct := range circles {
		c := ct.Build(Identity, nil)
		for _, ct2 := range circles {
			emitLaw(ct, ct2, c, ct2.Build(Identity, nil))
		}
		for k := 0; k < len(others); k += 1 + rng.Intn(2) {
			o := others[k]
			real := built[o.idx][0]
			emitLaw(ct, o.tree, c, real)
			emitLaw(o.tree, ct, real, c)
		}
	}
	// tiny circles (centimetres to a metre) against points a fraction of the radius away, alone and inside collections:
	// the same laws (contains => intersects and the rectangle covers, intersects => rectangles meet)
	for _, r := range []float64{0.05, 0.2, 0.27, 0.3, 1, 7} {
		centre := geometry.Point{X: 1, Y: 1}
		c := geojson.NewCircle(centre, r, 64)
		tc := Tree{Kind: "Circle", P: []int{1, 1}, R: int(r * 100), Steps: 64} // description only: radius in centimetres
		for _, f := range []float64{0.3, 0.9} {
			for _, dir := range [][2]float64{{1, 0}, {0, 1}, {-0.7, -0.7}} {
				p := geojson.NewPoint(geometry.Point{X: centre.X + dir[0]*f*r/111195, Y: centre.Y + dir[1]*f*r/111195})
				tp := Tree{Kind: "Point", P: []int{1, 1}}
				emitLaw(tc, tp, c, p)
				emitLaw(tp, tc, p, c)
				fc := geojson.NewFeatureCollection([]geojson.Object{c})
				emitLaw(Tree{Kind: "FeatureCollection", Kids: []Tree{tc}}, tp, fc, p)
				gc := geojson.NewGeometryCollection([]geojson.Object{geojson.NewPoint(geometry.Point{X: 50, Y: 50}), c})
				emitLaw(Tree{Kind: "GeometryCollection", Kids: []Tree{tc}}, tp, gc, p)
			}
		}
	}
	// shapes in the gap between a circle's polygon approximation and its disc (midway between two polygon vertices, 99.9 % of the
	// radius out), and point collections large enough to carry a child index against tiny circles: the same laws
	for _, cfg := range []struct {
		r     float64
		steps int
	}{{1000, 64}, {600000, 64}, {50000, 12}, {3, 64}} {
		centre := geometry.Point{X: 1, Y: 1}
		c := geojson.NewCircle(centre, cfg.r, cfg.steps)
		tc := Tree{Kind: "Circle", P: []int{1, 1}, R: int(cfg.r), Steps: cfg.steps}
		brg := 180.0 / float64(cfg.steps) // half a step
		gap := 1 - (1-math.Cos(math.Pi/float64(cfg.steps)))/2
		at := func(f, b float64) geometry.Point {
			la, lo := geo.DestinationPoint(centre.Y, centre.X, cfg.r*f, b)
			return geometry.Point{X: lo, Y: la}
		}
		p1, p2, p3 := at(gap, brg), at(gap*0.9999, brg+0.01), at(gap*0.9998, brg-0.01)
		shapes := []geojson.Object{
			geojson.NewLineString(geometry.NewLine([]geometry.Point{p1, p2}, nil)),
			geojson.NewPolygon(geometry.NewPoly([]geometry.Point{p1, p2, p3, p1}, nil, nil)),
			geojson.NewRect(geometry.Rect{Min: geometry.Point{X: math.Min(p1.X, p2.X), Y: math.Min(p1.Y, p2.Y)}, Max: geometry.Point{X: math.Max(p1.X, p2.X), Y: math.Max(p1.Y, p2.Y)}}),
			geojson.NewMultiPoint([]geometry.Point{p1, p3}),
		}
		for si, sh := range shapes {
			ts := placeholder([]string{"LineString", "Polygon", "Rect", "MultiPoint"}[si])
			emitLaw(tc, ts, c, sh)
			emitLaw(ts, tc, sh, c)
		}
		// shapes in a corner of the circle's rectangle, outside the disc, against collections that hold the circle
		d := cfg.r / 111195
		corner := []geojson.Object{
			geojson.NewRect(geometry.Rect{Min: geometry.Point{X: centre.X + 0.8*d, Y: centre.Y + 0.8*d}, Max: geometry.Point{X: centre.X + 0.97*d, Y: centre.Y + 0.97*d}}),
			geojson.NewPoint(geometry.Point{X: centre.X - 0.9*d, Y: centre.Y + 0.9*d}),
			geojson.NewLineString(geometry.NewLine([]geometry.Point{{X: centre.X + 0.8*d, Y: centre.Y - 0.95*d}, {X: centre.X + 0.95*d, Y: centre.Y - 0.8*d}}, nil)),
		}
		holders := []geojson.Object{geojson.NewFeatureCollection([]geojson.Object{c}),
			geojson.NewGeometryCollection([]geojson.Object{geojson.NewPoint(geometry.Point{X: 50, Y: 50}), c, geojson.NewFeature(c, "")})}
		for ci2, cs := range corner {
			for hi, h := range holders {
				emitLaw(placeholder([]string{"FeatureCollection", "GeometryCollection"}[hi]), placeholder([]string{"Rect", "Point", "LineString"}[ci2]), h, cs)
				any1, any2 := false, false
				for _, ch := range h.(geojson.Collection).Children() {
					any1 = any1 || ch.Intersects(cs)
					any2 = any2 || cs.Intersects(ch)
				}
				ev.Emit(obj{"op": "compose", "what": fmt.Sprintf("holds a circle of %v m; intersects a shape in the corner of its box", cfg.r), "kind": fmt.Sprintf("%T", h),
					"got": h.Intersects(cs), "some_child": any1})
				ev.Emit(obj{"op": "compose", "what": fmt.Sprintf("holds a circle of %v m; a shape in the corner of its box intersects it", cfg.r), "kind": fmt.Sprintf("%T", h),
					"got": cs.Intersects(h), "some_child": any2})
			}
		}
	}
	for _, r := range []float64{0.1, 0.25, 2} {
		centre := geometry.Point{X: 1, Y: 1}
		c := geojson.NewCircle(centre, r, 64)
		tc := Tree{Kind: "Circle", P: []int{1, 1}, R: int(r * 100), Steps: 64}
		var pts []geometry.Point
		var kids []geojson.Object
		for k := 0; k < 70; k++ {
			p := geometry.Point{X: 1 + float64(k+1)*0.01, Y: 1 + float64(k%7)*0.01}
			if k == 37 {
				p = geometry.Point{X: centre.X + 0.4*r/111195, Y: centre.Y - 0.3*r/111195} // the only one inside the disc
			}
			pts = append(pts, p)
			kids = append(kids, geojson.NewPoint(p))
		}
		mp := geojson.NewMultiPoint(pts)
		gc := geojson.NewGeometryCollection(kids)
		emitLaw(placeholder("MultiPoint"), tc, mp, c)
		emitLaw(tc, placeholder("MultiPoint"), c, mp)
		// C10: the collection intersects X iff some child intersects X, also for a Circle X and with a child index
		for _, coll := range []geojson.Object{mp, gc} {
			any := false
			for _, ch := range coll.(geojson.Collection).Children() {
				any = any || ch.Intersects(c)
			}
			ev.Emit(obj{"op": "compose", "what": "intersects a circle of " + fmt.Sprint(r) + " m", "kind": fmt.Sprintf("%T with %d children", coll, len(coll.(geojson.Collection).Children())),
				"got": coll.Intersects(c), "some_child": any})
		}
		emitLaw(placeholder("GeometryCollection"), tc, gc, c)
		if text := gc.JSON(); true { // the same collection obtained through Parse with a child index from 1 child on
			if po, err := geojson.Parse(text, &geojson.ParseOptions{IndexChildren: 1, IndexGeometry: 64, IndexGeometryKind: geometry.QuadTree}); err == nil {
				emitLaw(placeholder("GeometryCollection"), tc, po, c)
			}
		}
	}
	// a collection with a child index that holds a Circle at high latitude (the disc sticks out of the rectangle of its polygon
	// approximation there): points all around, just inside the disc. C10: the collection contains / intersects X iff a child does.
	{
		centre := geometry.Point{X: 3, Y: 80}
		const r = 600000.0
		doc := `{"type":"FeatureCollection","features":[{"type":"Feature","geometry":{"type":"Point","coordinates":[50,50]},"properties":{}},` +
			`{"type":"Feature","geometry":{"type":"Point","coordinates":[3,80]},"properties":{"type":"Circle","radius":600000,"radius_units":"m"}},` +
			`{"type":"Feature","geometry":{"type":"Point","coordinates":[-60,-20]},"properties":{}}]}`
		var colls []geojson.Object
		for _, ic := range []int{0, 1, 2} {
			if o, err := geojson.Parse(doc, &geojson.ParseOptions{IndexChildren: ic, IndexGeometry: 64, IndexGeometryKind: geometry.QuadTree}); err == nil {
				colls = append(colls, o)
			}
		}
		circleRect := geojson.NewCircle(centre, r, 64).Rect()
		for b := 0; b < 360; b += 15 {
			for _, f := range []float64{0.97, 0.6, 0.93} {
				la, lo := geo.DestinationPoint(centre.Y, centre.X, r*f, float64(b))
				var p geojson.Object = geojson.NewPoint(geometry.Point{X: lo, Y: la})
				probe := "point"
				if f == 0.93 { // a small circle: circle-in-circle containment is decided on the centres, whatever the rectangles
					p = geojson.NewCircle(geometry.Point{X: lo, Y: la}, 20000, 64)
					probe = "circle of 20 km"
				}
				outside := !circleRect.IntersectsRect(p.Rect()) // the probe lies in the part of the disc that the circle's rectangle misses
				for ci3, coll := range colls {
					cc, ok := coll.(geojson.Collection)
					if !ok {
						continue
					}
					anyC, anyI := false, false
					for _, ch := range cc.Children() {
						anyC = anyC || ch.Contains(p)
						anyI = anyI || ch.Intersects(p)
					}
					what := fmt.Sprintf("with a Circle((3,80), 600 km) child, child index %d; %s at bearing %d, %.0f %% of the radius: ", []int{0, 1, 2}[ci3], probe, b, f*100)
					ev.Emit(obj{"op": "compose", "what": what + "contains", "kind": fmt.Sprintf("%T", coll), "got": coll.Contains(p), "some_child": anyC, "outside_child_rect": outside})
					ev.Emit(obj{"op": "compose", "what": what + "intersects", "kind": fmt.Sprintf("%T", coll), "got": coll.Intersects(p), "some_child": anyI, "outside_child_rect": outside})
					ev.Emit(obj{"op": "compose", "what": what + "probe within collection", "kind": fmt.Sprintf("%T", coll), "got": p.Within(coll), "some_child": anyC, "outside_child_rect": outside})
				}
			}
		}
	}
	selfLaw = true
	wl, we := wildLaws(ev, emitLaw)
	laws += wl
	printJSON(obj{"wild_law_events": wl, "equivalence_events": we, "objects": len(objs), "fact_checks": facts, "fact_mismatches": factMism, "relation_calls": evals, "relation_mismatches": mism, "law_events": laws, "events": ev.N})
	return nil
}

func nonNilInts(a []int) []int {
	if a == nil {
		return []int{}
	}
	return a
}

// searchOK: hits are distinct, inside the expected set, complete when never stopped, and no callback follows a false
func searchOK(hits, exp []int, stop, after int) bool {
	if after != 0 {
		return false
	}
	in := map[int]bool{}
	for _, e := range exp {
		in[e] = true
	}
	seen := map[int]bool{}
	for _, h := range hits {
		if !in[h] || seen[h] {
			return false
		}
		seen[h] = true
	}
	if stop == 0 {
		return len(hits) == len(exp)
	}
	want := stop
	if len(exp) < want {
		want = len(exp)
	}
	return len(hits) == want
}

// wildLeaves: shapes outside the exact-safe leaf set of Gen_Obj (holes, lines along / across / inside a hole,
// degenerate rectangles, collinear and bent lines, concave polygons). No L1 is used for them here: the laws of C09
// relate the real answers of a pair to each other, and the transparency clauses relate the answers of two
// representations of the same point set.
func wildLeaves() []Tree {
	sq := func(a, b int) [][]int { return [][]int{{a, a}, {b, a}, {b, b}, {a, b}, {a, a}} }
	pt := func(x, y int) Tree { return Tree{Kind: "Point", P: []int{x, y}} }
	ln := func(p ...[]int) Tree { return Tree{Kind: "LineString", Pts: p} }
	rc := func(a, b, c, d int) Tree { return Tree{Kind: "Rect", Min: []int{a, b}, Max: []int{c, d}} }
	holed := Tree{Kind: "Polygon", Rings: [][][]int{sq(0, 6), sq(1, 5)}}
	twoHoles := Tree{Kind: "Polygon", Rings: [][][]int{sq(0, 6), {{1, 1}, {2, 1}, {2, 2}, {1, 1}}, {{3, 3}, {5, 3}, {5, 5}, {3, 5}, {3, 3}}}}
	plug := Tree{Kind: "Polygon", Rings: [][][]int{sq(1, 5)}}
	return []Tree{
		holed, twoHoles, plug, {Kind: "Polygon", Rings: [][][]int{sq(2, 4)}}, {Kind: "Polygon", Rings: [][][]int{sq(0, 6)}},
		{Kind: "Polygon", Rings: [][][]int{{{0, 0}, {6, 0}, {6, 1}, {1, 1}, {1, 6}, {0, 6}, {0, 0}}}}, // concave L along the hole
		{Kind: "Polygon", Rings: [][][]int{{{0, 0}, {1, 1}, {0, 2}, {0, 0}}}},
		ln([]int{1, 1}, []int{5, 1}), ln([]int{2, 1}, []int{4, 1}), ln([]int{2, 3}, []int{4, 3}), ln([]int{0, 3}, []int{6, 3}), ln([]int{0, 0}, []int{1, 1}),
		ln([]int{0, 0}, []int{3, 0}, []int{6, 0}), ln([]int{0, 0}, []int{6, 0}, []int{6, 6}), ln([]int{1, 1}, []int{5, 1}, []int{5, 5}, []int{1, 5}, []int{1, 1}),
		ln([]int{0, 1}, []int{1, 1}, []int{1, 0}), ln([]int{3, 0}, []int{3, 1}),
		ln([]int{3, 3}, []int{3, 3}), ln([]int{1, 1}, []int{1, 1}, []int{1, 1}), ln([]int{3, 1}, []int{3, 1}), // all positions equal
		rc(2, 1, 4, 1), rc(1, 2, 1, 4), rc(3, 3, 3, 3), rc(1, 1, 1, 1), rc(1, 1, 5, 5), rc(0, 0, 6, 6), rc(2, 2, 4, 4), rc(0, 0, 6, 0), rc(0, 0, 1, 1),
		pt(3, 1), pt(3, 3), pt(1, 1), pt(0, 0), pt(7, 7), {Kind: "SimplePoint", P: []int{5, 3}},
		// high latitudes (partners of the circle centred at (3,80), whose rectangle is far from a disc there)
		pt(3, 85), pt(25, 83), pt(-18, 84), {Kind: "SimplePoint", P: []int{30, 80}}, ln([]int{0, 81}, []int{6, 84}), rc(2, 83, 4, 84),
		{Kind: "MultiPoint", Pts: [][]int{{3, 3}, {3, 1}}}, {Kind: "MultiPoint", Pts: [][]int{{0, 0}, {6, 6}}},
		{Kind: "GeometryCollection", Kids: []Tree{holed, plug}}, {Kind: "Feature", Kids: []Tree{holed}},
		{Kind: "MultiLineString", Rings: [][][]int{{{1, 1}, {5, 1}}, {{5, 1}, {5, 5}}}},
		{Kind: "MultiPolygon", Polys: [][][][]int{{sq(0, 6), sq(1, 5)}, {sq(2, 4)}}},
	}
}

// equivalents: other representations of the same point set (C09: Rect = five-point Polygon, SimplePoint = Point, Feature = its geometry)
func equivalents(t Tree) []Tree {
	var out []Tree
	switch t.Kind {
	case "Rect":
		a, b, c, d := t.Min[0], t.Min[1], t.Max[0], t.Max[1]
		out = append(out, Tree{Kind: "Polygon", Rings: [][][]int{{{a, b}, {c, b}, {c, d}, {a, d}, {a, b}}}})
	case "Point":
		out = append(out, Tree{Kind: "SimplePoint", P: t.P})
	case "SimplePoint":
		out = append(out, Tree{Kind: "Point", P: t.P})
	}
	// a collection with one child answers as the child (C10 with a single child)
	switch t.Kind {
	case "Point":
		out = append(out, Tree{Kind: "MultiPoint", Pts: [][]int{t.P}})
	case "LineString":
		out = append(out, Tree{Kind: "MultiLineString", Rings: [][][]int{t.Pts}})
	case "Polygon":
		out = append(out, Tree{Kind: "MultiPolygon", Polys: [][][][]int{t.Rings}})
	}
	if t.Kind != "Feature" && t.Kind != "GeometryCollection" {
		out = append(out, Tree{Kind: "GeometryCollection", Kids: []Tree{t}})
	}
	// a Feature around a collection is the known finding KF-C09-feature-parts (judged against L1 / L2 in the relation rows)
	if t.Kind != "Feature" && !strings.HasPrefix(t.Kind, "Multi") && !strings.HasSuffix(t.Kind, "Collection") {
		out = append(out, Tree{Kind: "Feature", Kids: []Tree{t}})
		out = append(out, Tree{Kind: "Feature", Kids: []Tree{{Kind: "Feature", Kids: []Tree{t}}}}) // a Feature around a Feature
	}
	return out
}

func wildLaws(ev *Events, emitLaw func(ta, tb Tree, a, b geojson.Object)) (laws, equivs int) {
	leaves := wildLeaves()
	objs := make([]geojson.Object, len(leaves))
	for i, t := range leaves {
		objs[i] = t.Build(Identity, nil)
	}
	answers := func(a, b geojson.Object) string {
		s := ""
		_, out := guarded(func() bool {
			s = fmt.Sprint(a.Intersects(b), b.Intersects(a), a.Contains(b), b.Within(a), a.Within(b), b.Contains(a))
			return true
		})
		if out != "ok" {
			if i := strings.Index(out, "runaway"); i >= 0 {
				return "runaway"
			}
			return out
		}
		return s
	}
	// partners that are not wild leaves themselves: circles (the other representations must answer alike against them too)
	partners := append([]Tree{}, leaves...)
	pobjs := append([]geojson.Object{}, objs...)
	for _, ct := range []Tree{{Kind: "Circle", P: []int{3, 80}, R: 600000, Steps: 64}, {Kind: "Circle", P: []int{3, 3}, R: 250000, Steps: 12},
		{Kind: "Circle", P: []int{0, 89}, R: 900000, Steps: 64}, {Kind: "Circle", P: []int{179, 2}, R: 400000, Steps: 64}} {
		partners = append(partners, ct)
		pobjs = append(pobjs, ct.Build(Identity, nil))
	}
	for i, ta := range leaves {
		for j, tb := range leaves {
			emitLaw(ta, tb, objs[i], objs[j])
			laws++
		}
		for _, te := range equivalents(ta) {
			oe := te.Build(Identity, nil)
			for j, tb := range partners {
				r1, r2 := answers(objs[i], pobjs[j]), answers(oe, pobjs[j])
				e := obj{"op": "equiv", "A": ta.JSON(), "A2": te.JSON(), "B": tb.JSON(), "r1": r1, "r2": r2, "out": "ok"}
				ev.Emit(e)
				equivs++
			}
		}
	}
	return
}

// placeholder: a small tree of the given kind that stands for an object with float coordinates in the description of an event
// (the events of this family are judged on their recorded answers only)
func placeholder(kind string) Tree {
	switch kind {
	case "LineString", "MultiPoint":
		return Tree{Kind: kind, Pts: [][]int{{1, 1}, {1, 1}}}
	case "Polygon":
		return Tree{Kind: kind, Rings: [][][]int{{{1, 1}, {1, 1}, {1, 1}, {1, 1}}}}
	case "Rect":
		return Tree{Kind: kind, Min: []int{1, 1}, Max: []int{1, 1}}
	case "Point":
		return Tree{Kind: kind, P: []int{1, 1}}
	}
	return Tree{Kind: kind, Kids: []Tree{{Kind: "Point", P: []int{1, 1}}}}
}
