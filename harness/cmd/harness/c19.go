package main

import (
	"encoding/json"
	"fmt"
	"math"
	"math/rand"
	"sync"

	"github.com/tidwall/geojson/geometry"
)

// c19 <casefile> <outdir> <seed> <nrandom> <nmaps>
//
// Replays the exhaustive Gen_C19 rows into the real segment kernels under a
// family of orbit maps, and records a seeded random trace of real kernel
// calls.  Mismatches against the TLC-computed answers and all recorded calls
// go to <outdir>/c19.events.ndjson for Trace_C19.tla to judge.
func init() { commands["c19"] = c19 }

func rayCode(r geometry.RaycastResult) int {
	if r.On {
		return 2
	}
	if r.In {
		return 1
	}
	return 0
}

func c19(args []string) error {
	if len(args) != 5 {
		return fmt.Errorf("usage: c19 casefile outdir seed nrandom nmaps")
	}
	casefile, outdir := args[0], args[1]
	seed, nrandom, nmaps := atoi(args[2]), atoi(args[3]), atoi(args[4])
	ev, err := newEvents(outdir + "/c19.events.ndjson")
	if err != nil {
		return err
	}
	defer ev.Close()
	rng := rand.New(rand.NewSource(int64(seed)))

	var rows [][]json.RawMessage
	if err := readLines(casefile, func(line []byte) error {
		var row []json.RawMessage
		if err := json.Unmarshal(line, &row); err != nil {
			return err
		}
		rows = append(rows, row)
		return nil
	}); err != nil {
		return err
	}
	if len(rows) == 0 {
		return fmt.Errorf("no cases in %s", casefile)
	}
	var first [2]int
	var np int
	{
		var r0 []int
		json.Unmarshal(rows[0][3], &r0)
		np = len(r0)
	}
	m := 1
	for m*m < np {
		m++
	}
	_ = first
	maps := append(fixedMaps(m-1), seededMaps(rng, m-1, nmaps)...)
	maps = append(maps, oddMaps()...)
	ptOf := func(i int) (int, int) { return i / m, i % m } // index 0..np-1, same order as Gen_C19!Pt

	var evals, mism int64
	var mu sync.Mutex
	var wg sync.WaitGroup
	sem := make(chan struct{}, 16)
	for _, row := range rows {
		row := row
		wg.Add(1)
		sem <- struct{}{}
		go func() {
			defer func() { <-sem; wg.Done() }()
			var a, b []int
			var ray, col, inter, cont, rect []int
			json.Unmarshal(row[1], &a)
			json.Unmarshal(row[2], &b)
			json.Unmarshal(row[3], &ray)
			json.Unmarshal(row[4], &col)
			json.Unmarshal(row[5], &inter)
			json.Unmarshal(row[6], &cont)
			json.Unmarshal(row[7], &rect)
			var le, lm int64
			for _, mp := range maps {
				seg := geometry.Segment{A: mp.P(a[0], a[1]), B: mp.P(b[0], b[1])}
				for i := 0; i < np; i++ {
					px, py := ptOf(i)
					p := mp.P(px, py)
					le += 3
					if got := rayCode(seg.Raycast(p)); got != ray[i] {
						lm++
						ev.Emit(obj{"op": "ray", "a": a, "b": b, "p": pt(px, py), "got": got, "exp": ray[i], "map": mp.Name, "src": "replay"})
					}
					if got := seg.ContainsPoint(p); got != (ray[i] == 2) {
						lm++
						ev.Emit(obj{"op": "cpt", "a": a, "b": b, "p": pt(px, py), "got": got, "exp": ray[i] == 2, "map": mp.Name, "src": "replay"})
					}
					if got := seg.CollinearPoint(p); got != (col[i] == 1) {
						lm++
						ev.Emit(obj{"op": "col", "a": a, "b": b, "p": pt(px, py), "got": got, "exp": col[i] == 1, "map": mp.Name, "src": "replay"})
					}
				}
				for k := 0; k < np*np; k++ {
					cx, cy := ptOf(k / np)
					dx, dy := ptOf(k % np)
					other := geometry.Segment{A: mp.P(cx, cy), B: mp.P(dx, dy)}
					le += 2
					if got := seg.IntersectsSegment(other); got != (inter[k] == 1) {
						lm++
						ev.Emit(obj{"op": "int", "a": a, "b": b, "c": pt(cx, cy), "d": pt(dx, dy), "got": got, "exp": inter[k] == 1, "map": mp.Name, "src": "replay"})
					}
					if got := seg.ContainsSegment(other); got != (cont[k] == 1) {
						lm++
						ev.Emit(obj{"op": "con", "a": a, "b": b, "c": pt(cx, cy), "d": pt(dx, dy), "got": got, "exp": cont[k] == 1, "map": mp.Name, "src": "replay"})
					}
				}
				r := seg.Rect()
				want := geometry.Rect{Min: mp.P(rect[0], rect[1]), Max: mp.P(rect[2], rect[3])}
				le++
				if r != want {
					lm++
					ev.Emit(obj{"op": "rect", "a": a, "b": b, "got": []float64{r.Min.X, r.Min.Y, r.Max.X, r.Max.Y}, "exp": rect, "map": mp.Name, "src": "replay", "bad": true})
				}
			}
			mu.Lock()
			evals += le
			mism += lm
			mu.Unlock()
		}()
	}
	wg.Wait()

	// ---- recorded random trace (Go -> TLC)
	recorded := 0
	const R = 1000
	rp := func() (int, int) { return rng.Intn(2*R+1) - R, rng.Intn(2*R+1) - R }
	for n := 0; n < nrandom; n++ {
		var ax, ay, bx, by, cx, cy, dx, dy int
		switch rng.Intn(6) {
		case 0: // uniform
			ax, ay = rp()
			bx, by = rp()
			cx, cy = rp()
			dx, dy = rp()
		case 1, 2: // all four points on one carrier line: nested / overlapping / touching / disjoint
			ox, oy := rng.Intn(201)-100, rng.Intn(201)-100
			ux, uy := rng.Intn(9)-4, rng.Intn(9)-4
			k := func() int { return rng.Intn(21) - 10 }
			k1, k2, k3, k4 := k(), k(), k(), k()
			ax, ay = ox+k1*ux, oy+k1*uy
			bx, by = ox+k2*ux, oy+k2*uy
			cx, cy = ox+k3*ux, oy+k3*uy
			dx, dy = ox+k4*ux, oy+k4*uy
		case 3: // endpoint of one on the other / shared endpoints
			ax, ay = rp()
			bx, by = rp()
			cx, cy = ax, ay
			if rng.Intn(2) == 0 {
				g := gcd(abs(bx-ax), abs(by-ay))
				if g > 0 {
					t := rng.Intn(g + 1)
					cx, cy = ax+(bx-ax)/g*t, ay+(by-ay)/g*t
				}
			}
			dx, dy = rp()
		case 4: // horizontal / vertical / degenerate mixes on a tiny lattice
			q := func() int { return rng.Intn(5) - 2 }
			ax, ay, bx, by, cx, cy, dx, dy = q(), q(), q(), q(), q(), q(), q(), q()
			if rng.Intn(3) == 0 {
				by = ay
			}
			if rng.Intn(3) == 0 {
				dx = cx
			}
		case 5: // nearly collinear: c on the carrier of a-b, d one step off
			ax, ay = rp()
			ux, uy := rng.Intn(41)-20, rng.Intn(41)-20
			k1, k2 := rng.Intn(9)-4, rng.Intn(9)-4
			bx, by = ax+3*ux, ay+3*uy
			cx, cy = ax+k1*ux, ay+k1*uy
			dx, dy = ax+k2*ux+rng.Intn(3)-1, ay+k2*uy+rng.Intn(3)-1
		}
		mp := maps[rng.Intn(len(maps))]
		if absMax(ax, ay, bx, by, cx, cy, dx, dy) > 1024 {
			mp = Identity
		}
		s := geometry.Segment{A: mp.P(ax, ay), B: mp.P(bx, by)}
		t := geometry.Segment{A: mp.P(cx, cy), B: mp.P(dx, dy)}
		a, b, c, d := pt(ax, ay), pt(bx, by), pt(cx, cy), pt(dx, dy)
		ev.Emit(obj{"op": "int", "a": a, "b": b, "c": c, "d": d, "got": s.IntersectsSegment(t), "map": mp.Name, "src": "rec"})
		ev.Emit(obj{"op": "int", "a": c, "b": d, "c": a, "d": b, "got": t.IntersectsSegment(s), "map": mp.Name, "src": "rec"})
		ev.Emit(obj{"op": "con", "a": a, "b": b, "c": c, "d": d, "got": s.ContainsSegment(t), "map": mp.Name, "src": "rec"})
		ev.Emit(obj{"op": "ray", "a": a, "b": b, "p": c, "got": rayCode(s.Raycast(t.A)), "map": mp.Name, "src": "rec"})
		ev.Emit(obj{"op": "ray", "a": c, "b": d, "p": b, "got": rayCode(t.Raycast(s.B)), "map": mp.Name, "src": "rec"})
		ev.Emit(obj{"op": "col", "a": a, "b": b, "p": d, "got": s.CollinearPoint(t.B), "map": mp.Name, "src": "rec"})
		ev.Emit(obj{"op": "cpt", "a": a, "b": b, "p": c, "got": s.ContainsPoint(t.A), "map": mp.Name, "src": "rec"})
		recorded += 7
	}
	// ---- large coordinates (up to 2^20): points whose cross product with a long segment is 0, +-1 or +-g;
	// judged by the limb-arithmetic kernels of BigKernel.tla
	bigN := nrandom / 8
	for n := 0; n < bigN; n++ {
		g := []int{1, 1, 2, 8, 64}[rng.Intn(5)]
		lim := (1 << 21) / g // coordinates in [-2^20, 2^20]: differences up to 2^21
		pdx, pdy := 1+rng.Intn(lim-1100), 1+rng.Intn(lim-1100)
		if n%2 == 0 { // both extents within 3% of the maximum
			pdx, pdy = lim-1100-rng.Intn(lim/32), lim-1100-rng.Intn(lim/32)
		}
		for gcd(pdx, pdy) != 1 {
			pdy--
		}
		if rng.Intn(2) == 0 {
			pdy = -pdy
		}
		dx, dy := pdx*g, pdy*g
		ax, ay := -dx/2+rng.Intn(1001)-500, -dy/2+rng.Intn(1001)-500
		bx, by := ax+dx, ay+dy
		// x,y with pdx*y - pdy*x = 1, reduced into the box of the primitive direction
		x, y := bezout(pdx, pdy)
		k := rng.Intn(g)
		type pt2 struct{ x, y int }
		cands := []pt2{
			{ax + x + k*pdx, ay + y + k*pdy},             // cross = +g (one lattice step left of the line)
			{ax - x + (k+1)*pdx, ay - y + (k+1)*pdy},     // cross = -g
			{ax + k*pdx, ay + k*pdy},                     // on the segment (a lattice point of it)
			{bx + pdx, by + pdy},                         // collinear, beyond b
			{ax + x + k*pdx + pdx, ay + y + k*pdy + pdy}, // parallel neighbour of the first
			{ax + dx/2, ay + dy/2 + 1},
		}
		pi, qi := rng.Intn(len(cands)), rng.Intn(len(cands))
		P, Q := cands[pi], cands[qi]
		if absMax(ax, ay, bx, by, P.x, P.y, Q.x, Q.y) > 1<<20+4096 {
			continue
		}
		f := func(x, y int) geometry.Point { return geometry.Point{X: float64(x), Y: float64(y)} }
		s := geometry.Segment{A: f(ax, ay), B: f(bx, by)}
		t := geometry.Segment{A: f(P.x, P.y), B: f(Q.x, Q.y)}
		a, b, c, d := pt(ax, ay), pt(bx, by), pt(P.x, P.y), pt(Q.x, Q.y)
		ev.Emit(obj{"op": "ray", "a": a, "b": b, "p": c, "got": rayCode(s.Raycast(t.A)), "big": 1, "src": "rec"})
		ev.Emit(obj{"op": "cpt", "a": a, "b": b, "p": d, "got": s.ContainsPoint(t.B), "big": 1, "src": "rec"})
		ev.Emit(obj{"op": "col", "a": a, "b": b, "p": c, "got": s.CollinearPoint(t.A), "big": 1, "src": "rec"})
		ev.Emit(obj{"op": "int", "a": a, "b": b, "c": c, "d": d, "got": s.IntersectsSegment(t), "big": 1, "src": "rec"})
		ev.Emit(obj{"op": "int", "a": c, "b": d, "c": a, "d": b, "got": t.IntersectsSegment(s), "big": 1, "src": "rec"})
		ev.Emit(obj{"op": "con", "a": a, "b": b, "c": c, "d": d, "got": s.ContainsSegment(t), "big": 1, "src": "rec"})
		recorded += 6
	}
	printJSON(obj{"rows": len(rows), "maps": len(maps), "evaluations": evals, "mismatches": mism, "recorded": recorded, "events": ev.N})
	return nil
}

// bezout returns x, y with dx*y - dy*x = 1 (dx > 0, gcd(dx,|dy|) = 1), 0 <= x < dx
func bezout(dx, dy int) (int, int) {
	// extended Euclid on (dx, dy): s*dx + t*dy = 1  =>  y = s, x = -t
	old_r, r := dx, dy
	old_s, s := 1, 0
	old_t, t := 0, 1
	for r != 0 {
		q := old_r / r
		old_r, r = r, old_r-q*r
		old_s, s = s, old_s-q*s
		old_t, t = t, old_t-q*t
	}
	if old_r < 0 {
		old_s, old_t = -old_s, -old_t
	}
	x, y := -old_t, old_s
	// shift along the direction so that 0 <= x < dx
	k := x / dx
	if x < 0 && x%dx != 0 {
		k--
	}
	return x - k*dx, y - k*dy
}

func gcd(a, b int) int {
	if a < 0 {
		a = -a
	}
	if b < 0 {
		b = -b
	}
	for b != 0 {
		a, b = b, a%b
	}
	return a
}
func abs(a int) int {
	if a < 0 {
		return -a
	}
	return a
}
func absMax(v ...int) int {
	m := 0
	for _, x := range v {
		if abs(x) > m {
			m = abs(x)
		}
	}
	return m
}

// c19one <event-json>: re-executes one kernel call (used by --replay).
func init() {
	commands["c19one"] = func(args []string) error {
		var e struct {
			Op         string
			A, B, C, D []int
			P          []int
		}
		if err := json.Unmarshal([]byte(args[0]), &e); err != nil {
			return err
		}
		mp := Identity
		s := geometry.Segment{A: mp.P(e.A[0], e.A[1]), B: mp.P(e.B[0], e.B[1])}
		var got interface{}
		switch e.Op {
		case "ray":
			got = rayCode(s.Raycast(mp.P(e.P[0], e.P[1])))
		case "cpt":
			got = s.ContainsPoint(mp.P(e.P[0], e.P[1]))
		case "col":
			got = s.CollinearPoint(mp.P(e.P[0], e.P[1]))
		case "int":
			got = s.IntersectsSegment(geometry.Segment{A: mp.P(e.C[0], e.C[1]), B: mp.P(e.D[0], e.D[1])})
		case "con":
			got = s.ContainsSegment(geometry.Segment{A: mp.P(e.C[0], e.C[1]), B: mp.P(e.D[0], e.D[1])})
		case "rect":
			r := s.Rect()
			got = []int{int(r.Min.X), int(r.Min.Y), int(r.Max.X), int(r.Max.Y)}
		}
		printJSON(obj{"got": got})
		return nil
	}
}

// oddMaps: scales that are not powers of two but keep every product exact (inside assumption A-float). Larger odd
// scales (2^27+1, 3*2^25+7) were tried and dropped: there the products of coordinate differences are inexact and the
// pinned IntersectsSegment itself misses T-junctions, which is outside the quantifier of C19 (magnitude <= 2^20,
// arithmetic exact).
func oddMaps() []Map {
	return []Map{
		{"odd:10", 10, 3, -7},
		{"odd:4097*2^-12", 4097 * math.Ldexp(1, -12), -5, 11},
	}
}
