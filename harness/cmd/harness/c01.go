package main

import (
	"encoding/json"
	"fmt"
	"math/rand"
	"sync"
	"sync/atomic"

	"github.com/tidwall/geojson"
	"github.com/tidwall/geojson/geometry"
)

// c01 <casefiles> <outdir> <seed> <nrandom> <tier>
func init() { commands["c01"] = c01 }

type pipAPI struct {
	name string
	fn   func(g geometry.Geometry, o geojson.Object, p geometry.Point) bool
}

func ptObjs(p geometry.Point) []geojson.Object {
	return []geojson.Object{geojson.NewPoint(p), geojson.NewSimplePoint(p), geojson.NewFeature(geojson.NewPoint(p), ""),
		geojson.NewPointZ(p, 7)}
}

var pipGeomAPIs = []pipAPI{
	{"geom.ContainsPoint", func(g geometry.Geometry, _ geojson.Object, p geometry.Point) bool { return g.ContainsPoint(p) }},
	{"geom.IntersectsPoint", func(g geometry.Geometry, _ geojson.Object, p geometry.Point) bool { return g.IntersectsPoint(p) }},
	{"point.IntersectsX(geom)", func(g geometry.Geometry, _ geojson.Object, p geometry.Point) bool {
		switch v := g.(type) {
		case geometry.Point:
			return p.IntersectsPoint(v)
		case geometry.Rect:
			return p.IntersectsRect(v)
		case *geometry.Line:
			return p.IntersectsLine(v)
		case *geometry.Poly:
			return p.IntersectsPoly(v)
		}
		panic("kind")
	}},
}

func pipObjAPIs() []pipAPI {
	var out []pipAPI
	names := []string{"Point", "SimplePoint", "Feature(Point)", "PointZ"}
	for k := range names {
		k := k
		out = append(out,
			pipAPI{"obj.Contains(" + names[k] + ")", func(_ geometry.Geometry, o geojson.Object, p geometry.Point) bool {
				return o.Contains(ptObjs(p)[k])
			}},
			pipAPI{names[k] + ".Within(obj)", func(_ geometry.Geometry, o geojson.Object, p geometry.Point) bool {
				return ptObjs(p)[k].Within(o)
			}},
			pipAPI{"obj.Intersects(" + names[k] + ")", func(_ geometry.Geometry, o geojson.Object, p geometry.Point) bool {
				return o.Intersects(ptObjs(p)[k])
			}},
			pipAPI{names[k] + ".Intersects(obj)", func(_ geometry.Geometry, o geojson.Object, p geometry.Point) bool {
				return ptObjs(p)[k].Intersects(o)
			}},
			pipAPI{"Feature(obj).Contains(" + names[k] + ")", func(_ geometry.Geometry, o geojson.Object, p geometry.Point) bool {
				return geojson.NewFeature(o, `{"id":1}`).Contains(ptObjs(p)[k])
			}},
			pipAPI{names[k] + ".Intersects(Feature(obj))", func(_ geometry.Geometry, o geojson.Object, p geometry.Point) bool {
				return ptObjs(p)[k].Intersects(geojson.NewFeature(o, ""))
			}},
		)
	}
	return out
}

var inflateIndex = []geometry.IndexOptions{
	{Kind: geometry.QuadTree, MinPoints: 64},
	{Kind: geometry.RTree, MinPoints: 64},
	{Kind: geometry.None, MinPoints: 0},
	{Kind: geometry.QuadTree, MinPoints: 1},
	{Kind: geometry.RTree, MinPoints: 1},
}

func c01(args []string) error {
	if len(args) != 5 {
		return fmt.Errorf("usage: c01 casefiles outdir seed nrandom tier")
	}
	outdir := args[1]
	seed, nrandom, tier := atoi(args[2]), atoi(args[3]), args[4]
	ev, err := newEvents(outdir + "/c01.events.ndjson")
	if err != nil {
		return err
	}
	defer ev.Close()
	rng := rand.New(rand.NewSource(int64(seed)))
	maps := append(fixedMaps(7<<5), seededMaps(rng, 7<<5, 4)...)
	objAPIs := pipObjAPIs()

	var evals, mism, rows int64
	var bigSeries int64
	var emitted int64
	var mu sync.Mutex
	var wg sync.WaitGroup
	work := make(chan []byte, 1024)
	for w := 0; w < 16; w++ {
		wg.Add(1)
		wrng := rand.New(rand.NewSource(int64(seed)*1000 + int64(w)))
		go func() {
			defer wg.Done()
			var le, lm, lr, lbig int64
			for line := range work {
				var raw []json.RawMessage
				if err := json.Unmarshal(line, &raw); err != nil {
					panic(err)
				}
				sh, err := parseShape(raw[1])
				if err != nil {
					panic(err)
				}
				var mask []int
				json.Unmarshal(raw[2], &mask)
				lr++
				wq := 1
				for wq*wq < len(mask) {
					wq++
				}
				run := func(enc Enc, opts geometry.IndexOptions, mp Map, apis []pipAPI, cfg string) {
					es := sh.Encode(enc)
					g := es.Geom(mp, &opts)
					var o geojson.Object
					if len(apis) > 0 && apis[0].name[0] != 'g' && apis[0].name[0] != 'p' {
						o = es.Object(mp, &opts, false)
					}
					if es.NumPoints() >= 64 {
						lbig++
					}
					for i, exp := range mask {
						qx, qy := (i/wq-1)<<uint(enc.Sub), (i%wq-1)<<uint(enc.Sub)
						p := mp.P(qx, qy)
						for _, api := range apis {
							le++
							if got := api.fn(g, o, p); got != (exp == 1) {
								lm++
								if atomic.AddInt64(&emitted, 1) > 3000 {
									continue // enough witnesses: the rest is only counted
								}
								if enc.Sub > 0 {
									// inflated run: the event carries the BASE shape and point (L1 is invariant under inflation, T1pip)
									ev.Emit(obj{"op": "pip", "shape": sh.JSON(), "pts": [][]int{{i/wq - 1, i%wq - 1}}, "got": []int{b2i(got)}, "exp": []int{exp},
										"api": api.name, "cfg": cfg, "enc": enc.String(), "inflated_to_points": es.NumPoints(), "map": mp.Name, "src": "replay"})
									continue
								}
								ev.Emit(obj{"op": "pip", "shape": es.JSON(), "pts": [][]int{{qx, qy}}, "got": []int{b2i(got)}, "exp": []int{exp},
									"api": api.name, "cfg": cfg, "enc": enc.String(), "map": mp.Name, "src": "replay"})
							}
						}
					}
				}
				// (1) as generated, every index configuration, geometry level
				for ci, opts := range indexConfigs {
					run(Enc{}, opts, maps[(int(lr)+ci)%len(maps)], pipGeomAPIs, fmt.Sprintf("index%d", ci))
				}
				// (2) object level, both point kinds, both operand orders, feature wrappers
				run(Enc{}, indexConfigs[int(lr)%3], maps[int(lr)%len(maps)], objAPIs[(int(lr)%4)*6:(int(lr)%4)*6+6], "object")
				// (3) re-encodings of the same point set
				encs := []Enc{{Rot: 1 + wrng.Intn(3)}, {Rev: true}, {Close: true}, {Open: true}, {Rep: true}, {Rot: 2, Rev: true, Close: true}}
				e := encs[wrng.Intn(len(encs))]
				run(e, indexConfigs[wrng.Intn(3)], maps[wrng.Intn(len(maps))], pipGeomAPIs[:1], "reenc")
				// (4) inflation past the index thresholds (64 default; 256 -> 2-byte items)
				if tier == "thorough" || lr%4 == 0 {
					sub := 5 + wrng.Intn(3)
					if wrng.Intn(40) == 0 {
						sub = 8 + wrng.Intn(2)
					}
					ie := Enc{Sub: sub, Rep: wrng.Intn(3) == 0, Rot: wrng.Intn(4)}
					run(ie, inflateIndex[wrng.Intn(len(inflateIndex))], Identity, pipGeomAPIs[:1], "inflate")
				}
			}
			mu.Lock()
			evals += le
			mism += lm
			rows += lr
			bigSeries += lbig
			mu.Unlock()
		}()
	}
	for _, cf := range splitComma(args[0]) {
		if err := readLines(cf, func(line []byte) error {
			work <- append([]byte{}, line...)
			return nil
		}); err != nil {
			return err
		}
	}
	close(work)
	wg.Wait()

	// a few very large series (4-byte item widths need > 65536 segments)
	if tier == "thorough" {
		sq := Shape{Kind: "poly", Ext: [][]int{{0, 0}, {6, 0}, {6, 6}, {2, 6}, {2, 2}, {0, 2}}}
		es := sq.Encode(Enc{Sub: 14})
		for _, opts := range inflateIndex[:2] {
			opts := opts
			g := es.Geom(Identity, &opts)
			bigSeries++
			// expected answers come from TLC for the base lattice: use the generated rows of this very shape if present;
			// here only record events for TLC to judge (a sample of points).
			var pts [][]int
			var got []int
			for k := 0; k < 12; k++ {
				qx, qy := (rng.Intn(9)-1)<<14, (rng.Intn(9)-1)<<14
				pts = append(pts, []int{qx >> 14, qy >> 14})
				got = append(got, b2i(g.ContainsPoint(Identity.P(qx, qy))))
			}
			ev.Emit(obj{"op": "pip", "shape": sq.JSON(), "pts": pts, "got": got, "api": "geom.ContainsPoint", "cfg": fmt.Sprintf("huge-%d-points kind=%v", es.NumPoints(), opts.Kind), "src": "rec"})
		}
	}

	// ---- recorded random trace
	recorded := 0
	for k := 0; k < nrandom; k++ {
		sh := randomShape(rng)
		opts := inflateIndex[rng.Intn(len(inflateIndex))]
		if rng.Intn(2) == 0 {
			opts = indexConfigs[rng.Intn(3)]
		}
		mp := maps[rng.Intn(len(maps))]
		g := sh.Geom(mp, &opts)
		o := sh.Object(mp, &opts, false)
		var api pipAPI
		if rng.Intn(2) == 0 {
			api = pipGeomAPIs[rng.Intn(len(pipGeomAPIs))]
		} else {
			api = objAPIs[rng.Intn(len(objAPIs))]
		}
		pts := probePoints(rng, sh, 16)
		got := make([]int, len(pts))
		for i, q := range pts {
			got[i] = b2i(api.fn(g, o, mp.P(q[0], q[1])))
		}
		ev.Emit(obj{"op": "pip", "shape": sh.JSON(), "pts": pts, "got": got, "api": api.name, "cfg": fmt.Sprintf("kind=%v min=%d", opts.Kind, opts.MinPoints), "map": mp.Name, "src": "rec"})
		recorded += len(pts)
	}
	// ---- large coordinates (up to 2^20): probes one lattice step off long sloped edges, judged by BigKernel.tla
	for k := 0; k < nrandom/10; k++ {
		g := []int{1, 1, 4, 32}[rng.Intn(4)]
		lim := (1 << 21) / g // coordinates in [-2^20, 2^20]: differences up to 2^21
		pdx, pdy := 1+rng.Intn(lim-110), 1+rng.Intn(lim-110)
		if k%2 == 0 { // both extents within 3% of the maximum: a relative tolerance of 1e-12 on the edge fractions starts to bite here
			pdx, pdy = lim-110-rng.Intn(lim/32), lim-110-rng.Intn(lim/32)
		}
		for gcd(pdx, pdy) != 1 {
			pdy--
		}
		dx, dy := pdx*g, pdy*g
		ax, ay := -dx/2+rng.Intn(101)-100, -dy/2+rng.Intn(101)-100
		x, y := bezout(pdx, pdy)
		j := rng.Intn(g)
		var sh Shape
		if rng.Intn(3) == 0 {
			sh = Shape{Kind: "line", Pts: [][]int{{ax, ay}, {ax + dx, ay + dy}, {ax + dx, ay - 7}}}
		} else {
			sh = Shape{Kind: "poly", Ext: [][]int{{ax, ay}, {ax + dx, ay + dy}, {ax - 1000, ay + dy + 1000}, {ax, ay}}}
			if rng.Intn(2) == 0 {
				sh.Ext = rev(sh.Ext)
			}
		}
		pts := [][]int{{ax + x + j*pdx, ay + y + j*pdy}, {ax - x + (j+1)*pdx, ay - y + (j+1)*pdy}, {ax + j*pdx, ay + j*pdy},
			{ax + dx, ay + dy}, {ax - 5, ay}, {ax + dx/2, ay + dy + 1000}, {ax + dx + 3, ay + dy}, {ax - 1000 - 1, ay + dy + 1000}}
		opts := inflateIndex[rng.Intn(len(inflateIndex))]
		gm := sh.Geom(Identity, &opts)
		got := make([]int, len(pts))
		for i, q := range pts {
			got[i] = b2i(gm.ContainsPoint(Identity.P(q[0], q[1])))
		}
		ev.Emit(obj{"op": "pip", "shape": sh.JSON(), "pts": pts, "got": got, "api": "geom.ContainsPoint", "big": 1, "src": "rec"})
		recorded += len(pts)
	}
	printJSON(obj{"rows": rows, "maps": len(maps), "evaluations": evals, "mismatches": mism, "recorded": recorded, "events": ev.N, "series_ge_64_points": bigSeries})
	return nil
}

func randomRingN(rng *rand.Rand, n, ext int) [][]int {
	r := make([][]int, n)
	for i := range r {
		r[i] = []int{rng.Intn(2*ext+1) - ext, rng.Intn(2*ext+1) - ext}
	}
	return r
}

func randomShape(rng *rand.Rand) Shape {
	switch rng.Intn(8) {
	case 0:
		return Shape{Kind: "rect", Min: []int{-rng.Intn(20), -rng.Intn(20)}, Max: []int{rng.Intn(20), rng.Intn(20)}}
	case 1:
		return Shape{Kind: "line", Pts: randomRingN(rng, 2+rng.Intn(20), 4+rng.Intn(30))}
	case 2:
		return Shape{Kind: "pt", P: []int{rng.Intn(5), rng.Intn(5)}}
	case 3: // polygon with holes, small lattice (many coincidences)
		s := Shape{Kind: "poly", Ext: randomRingN(rng, 3+rng.Intn(6), 5)}
		for h := rng.Intn(3); h > 0; h-- {
			s.Holes = append(s.Holes, randomRingN(rng, 3+rng.Intn(3), 4))
		}
		return s
	case 4: // big random ring
		return Shape{Kind: "poly", Ext: randomRingN(rng, 3+rng.Intn(60), 64)}
	case 5: // generated convex-ish/star rings with duplicates
		return Shape{Kind: "poly", Ext: randomRing(rng)}
	default:
		s := Shape{Kind: "poly", Ext: randomRingN(rng, 3+rng.Intn(10), 8)}
		if rng.Intn(2) == 0 {
			s.Ext = append(s.Ext, s.Ext[0])
		}
		if rng.Intn(3) == 0 {
			s.Holes = append(s.Holes, randomRingN(rng, 3+rng.Intn(4), 6))
		}
		return s
	}
}

// probePoints picks query points that matter: vertices, integral edge
// midpoints, points level with vertices, random points.
func probePoints(rng *rand.Rand, s Shape, n int) [][]int {
	var vs [][]int
	switch s.Kind {
	case "pt":
		vs = [][]int{s.P}
	case "rect":
		vs = [][]int{s.Min, s.Max, {s.Min[0], s.Max[1]}}
	case "line":
		vs = s.Pts
	default:
		vs = append(vs, s.Ext...)
		for _, h := range s.Holes {
			vs = append(vs, h...)
		}
	}
	var out [][]int
	for len(out) < n {
		v := vs[rng.Intn(len(vs))]
		w := vs[rng.Intn(len(vs))]
		switch rng.Intn(5) {
		case 0:
			out = append(out, []int{v[0], v[1]})
		case 1:
			if (v[0]+w[0])%2 == 0 && (v[1]+w[1])%2 == 0 {
				out = append(out, []int{(v[0] + w[0]) / 2, (v[1] + w[1]) / 2})
			}
		case 2:
			out = append(out, []int{w[0] + rng.Intn(7) - 3, v[1]})
		case 3:
			out = append(out, []int{v[0], w[1]})
		default:
			out = append(out, []int{v[0] + rng.Intn(9) - 4, v[1] + rng.Intn(9) - 4})
		}
	}
	return out
}

func init() {
	commands["c01one"] = func(args []string) error {
		var e struct {
			Shape json.RawMessage
			Pts   [][]int
			Api   string
		}
		if err := json.Unmarshal([]byte(args[0]), &e); err != nil {
			return err
		}
		sh, err := parseShape(e.Shape)
		if err != nil {
			return err
		}
		opts := indexConfigs[0]
		g := sh.Geom(Identity, &opts)
		o := sh.Object(Identity, &opts, false)
		api := pipGeomAPIs[0]
		for _, a := range append(append([]pipAPI{}, pipGeomAPIs...), pipObjAPIs()...) {
			if a.name == e.Api {
				api = a
			}
		}
		var got []int
		for _, q := range e.Pts {
			got = append(got, b2i(api.fn(g, o, Identity.P(q[0], q[1]))))
		}
		printJSON(obj{"got": got, "api": api.name})
		return nil
	}
}
