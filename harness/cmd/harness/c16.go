package main

import (
	"encoding/json"
	"fmt"
	"hash/fnv"
	"math"
	"math/rand"
	"reflect"
	"runtime"
	"strings"
	"sync"

	"github.com/tidwall/geojson"
	"github.com/tidwall/geojson/geometry"
)

// C16: objects are immutable.
//
//	c16digest <objects.lines> <outdir> <seed>            deterministic sweep: deep digest of all reachable memory
//	                                                      before and after every call
//	c16stress <objects.lines> <outdir> <seed> <G> <K>    many goroutines over a shared pool (run from the -race build)
func init() {
	commands["c16digest"] = c16digest
	commands["c16stress"] = c16stress
}

// deepDigest hashes everything reachable from v (unexported fields included);
// pointers are replaced by the order in which they are first met, so the
// digest depends on structure and contents, not on addresses.
func deepDigest(vs ...interface{}) uint64 {
	h := fnv.New64a()
	seen := map[uintptr]int{}
	var w func(v reflect.Value, depth int)
	put := func(s string) { h.Write([]byte(s)); h.Write([]byte{0}) }
	w = func(v reflect.Value, depth int) {
		if depth > 200 {
			put("deep")
			return
		}
		if !v.IsValid() {
			put("invalid")
			return
		}
		switch v.Kind() {
		case reflect.Bool:
			put(fmt.Sprint("b", v.Bool()))
		case reflect.Int, reflect.Int8, reflect.Int16, reflect.Int32, reflect.Int64:
			put(fmt.Sprint("i", v.Int()))
		case reflect.Uint, reflect.Uint8, reflect.Uint16, reflect.Uint32, reflect.Uint64, reflect.Uintptr:
			put(fmt.Sprint("u", v.Uint()))
		case reflect.Float32, reflect.Float64:
			put(fmt.Sprint("f", math.Float64bits(v.Float())))
		case reflect.String:
			put("s" + v.String())
		case reflect.Ptr:
			if v.IsNil() {
				put("nil")
				return
			}
			p := v.Pointer()
			if k, ok := seen[p]; ok {
				put(fmt.Sprint("ref", k))
				return
			}
			seen[p] = len(seen)
			put("ptr")
			w(v.Elem(), depth+1)
		case reflect.Interface:
			if v.IsNil() {
				put("nilif")
				return
			}
			put("if:" + v.Elem().Type().String())
			w(v.Elem(), depth+1)
		case reflect.Slice:
			if v.IsNil() {
				put("nilslice")
				return
			}
			put(fmt.Sprint("slice", v.Len(), v.Cap() >= v.Len()))
			if v.Type().Elem().Kind() == reflect.Uint8 {
				b := make([]byte, v.Len())
				for i := range b {
					b[i] = byte(v.Index(i).Uint())
				}
				h.Write(b)
				return
			}
			for i := 0; i < v.Len(); i++ {
				w(v.Index(i), depth+1)
			}
		case reflect.Array:
			for i := 0; i < v.Len(); i++ {
				w(v.Index(i), depth+1)
			}
		case reflect.Struct:
			put("struct:" + v.Type().String())
			for i := 0; i < v.NumField(); i++ {
				w(v.Field(i), depth+1)
			}
		case reflect.Map:
			put(fmt.Sprint("map", v.Len()))
		case reflect.Func, reflect.Chan, reflect.UnsafePointer:
			put(fmt.Sprint("opaque", v.IsNil()))
		default:
			put("?" + v.Kind().String())
		}
	}
	for _, x := range vs {
		w(reflect.ValueOf(x), 0)
	}
	return h.Sum64()
}

func packageState() []interface{} {
	return []interface{}{geojson.DefaultParseOptions, geometry.DefaultIndexOptions, geometry.WorldPolygon}
}

type poolObj struct {
	tree Tree
	via  string
	o    geojson.Object
}

func buildPool(path string) ([]poolObj, error) {
	var pool []poolObj
	err := readLines(path, func(line []byte) error {
		var raw []json.RawMessage
		if err := json.Unmarshal(line, &raw); err != nil {
			return err
		}
		t, err := parseTree(raw[1])
		if err != nil {
			return err
		}
		if len(t.Pts) > 60 || (len(t.Rings) > 0 && len(t.Rings[0]) > 60) {
			// degenerate 70-point series are kept: they are the ones that carry a segment index
		}
		pool = append(pool, poolObj{t, "constructors/default-index", t.buildC05(nil)})
		pool = append(pool, poolObj{t, "constructors/rtree-1", t.buildC05(&indexConfigs[1])})
		if len(pool)%5 == 0 { // Features with long member texts (caches are often size-gated)
			big := `{"id":"` + strings.Repeat("x", 300) + `","properties":{"name":"` + strings.Repeat("n", 300) + `","k":[1,2,3]},"bbox":[0,0,1,1]}`
			pool = append(pool, poolObj{Tree{Kind: "Feature", Kids: []Tree{t}}, "NewFeature/long-members", geojson.NewFeature(t.buildC05(nil), big)})
			noprops := `{"id":"` + strings.Repeat("y", 400) + `"}`
			pool = append(pool, poolObj{Tree{Kind: "Feature", Kids: []Tree{t}}, "NewFeature/long-members-no-properties", geojson.NewFeature(t.buildC05(nil), noprops)})
		}
		if t.Kind != "Circle" && !(t.Kind == "Feature" && t.Kids[0].Kind == "Circle") {
			for pi := range parseOptSets[:2] {
				if o, err := geojson.Parse(t.Render(Identity), &parseOptSets[pi]); err == nil {
					pool = append(pool, poolObj{t, fmt.Sprintf("parse/opts%d", pi), o})
				}
			}
		}
		return nil
	})
	if err == nil {
		pool = append(pool, bigPool()...)
	}
	return pool, err
}

// bigPool: objects beyond the size thresholds that gate caches, parallel code paths and index widths
// (4096 / 5000 children, 70 000 points). Their trees are placeholders (events show the kind only).
func bigPool() []poolObj {
	var feats, geoms, mpts []geojson.Object
	for i := 0; i < 5000; i++ {
		p := geojson.NewPoint(geometry.Point{X: float64(i%100) / 4, Y: float64(i/100) / 4})
		feats = append(feats, geojson.NewFeature(p, fmt.Sprintf(`{"id":%d,"properties":{"k":%d}}`, i, i%7)))
	}
	for i := 0; i < 4100; i++ {
		if i%2 == 0 {
			geoms = append(geoms, geojson.NewPoint(geometry.Point{X: float64(i % 90), Y: float64(i % 45)}))
		} else {
			geoms = append(geoms, geojson.NewLineString(geometry.NewLine([]geometry.Point{{X: float64(i % 90), Y: 1}, {X: float64(i%90) + 1, Y: float64(i % 45)}}, nil)))
		}
	}
	var pts []geometry.Point
	for i := 0; i < 70000; i++ {
		pts = append(pts, geometry.Point{X: float64(i%350) / 2, Y: float64(i/350)/4 + float64(i%2)/8})
	}
	for i := 0; i < 4200; i++ {
		mpts = append(mpts, geojson.NewPoint(pts[i*16]))
	}
	twins := []poolObj{}
	for _, st := range []int{3, 5, 12, 64, 7} { // same centre and radius, different approximations: nothing may be shared between them
		twins = append(twins, poolObj{Tree{Kind: "Circle", P: []int{7, 7}, R: 80000, Steps: st}, fmt.Sprintf("twin circle/%d steps", st),
			geojson.NewCircle(geometry.Point{X: 7, Y: 7}, 80000, st)})
	}
	return append(twins, []poolObj{
		{Tree{Kind: "FeatureCollection"}, "big/5000-features", geojson.NewFeatureCollection(feats)},
		{Tree{Kind: "GeometryCollection"}, "big/4100-geometries", geojson.NewGeometryCollection(geoms)},
		{Tree{Kind: "GeometryCollection"}, "big/4200-points", geojson.NewGeometryCollection(mpts)},
		{Tree{Kind: "LineString"}, "big/70000-point-line", geojson.NewLineString(geometry.NewLine(pts, nil))},
		{Tree{Kind: "Polygon"}, "big/70000-point-ring-rtree", geojson.NewPolygon(geometry.NewPoly(append(pts[:69999:69999], pts[0]), nil, &indexConfigs[1]))},
	}...)
}

type call16 struct {
	m    string
	a, b int
}

func doCall(c call16, pool []poolObj) (reply string) {
	defer func() {
		if r := recover(); r != nil {
			if rw, ok := r.(geometry.VerifRunaway); ok {
				reply = "runaway:" + rw.Site
			} else {
				reply = fmt.Sprint("panic:", r)
			}
		}
	}()
	a := pool[c.a].o
	switch c.m {
	case "Rect":
		return fmt.Sprint(a.Rect())
	case "Center":
		return fmt.Sprint(a.Center())
	case "Empty/Valid/NumPoints":
		return fmt.Sprint(a.Empty(), a.Valid(), a.NumPoints())
	case "JSON":
		return a.JSON()
	case "AppendJSON":
		return string(a.AppendJSON([]byte("x")))
	case "ForEach":
		n := 0
		a.ForEach(func(geojson.Object) bool { n++; return true })
		return fmt.Sprint(n)
	case "Search":
		if col, ok := a.(geojson.Collection); ok {
			n := 0
			col.Search(geometry.Rect{Min: geometry.Point{X: -1, Y: -1}, Max: geometry.Point{X: 2, Y: 2}}, func(geojson.Object) bool { n++; return true })
			return fmt.Sprint(n, len(col.Children()), col.Indexed())
		}
		return "-"
	case "Spatial":
		sp := a.Spatial()
		return fmt.Sprint(sp.IntersectsRect(geometry.Rect{Min: geometry.Point{X: 0, Y: 0}, Max: geometry.Point{X: 1, Y: 1}}), sp.WithinRect(geometry.Rect{Min: geometry.Point{X: -9, Y: -9}, Max: geometry.Point{X: 1e6, Y: 1e6}}),
			sp.IntersectsPoint(geometry.Point{X: 1, Y: 1}), sp.DistancePoint(geometry.Point{X: 1, Y: 1}))
	}
	b := pool[c.b].o
	switch c.m {
	case "Contains":
		return fmt.Sprint(a.Contains(b))
	case "Within":
		return fmt.Sprint(a.Within(b))
	case "Intersects":
		return fmt.Sprint(a.Intersects(b))
	case "Distance":
		return fmt.Sprint(math.Float64bits(a.Distance(b)))
	}
	return "?"
}

var unary16 = []string{"Rect", "Center", "Empty/Valid/NumPoints", "JSON", "AppendJSON", "ForEach", "Search", "Spatial"}
var binary16 = []string{"Contains", "Within", "Intersects", "Distance"}

func c16digest(args []string) error {
	if len(args) != 3 {
		return fmt.Errorf("usage: c16digest objects outdir seed")
	}
	pool, err := buildPool(args[0])
	if err != nil {
		return err
	}
	ev, err := newEvents(args[1] + "/c16.digest.ndjson")
	if err != nil {
		return err
	}
	defer ev.Close()
	rng := rand.New(rand.NewSource(int64(atoi(args[2]))))
	calls, changed := 0, 0
	emit := func(c call16) {
		objs := []interface{}{pool[c.a].o}
		if c.b >= 0 {
			objs = append(objs, pool[c.b].o)
		}
		objs = append(objs, packageState()...)
		before := deepDigest(objs...)
		reply := doCall(c, pool)
		after := deepDigest(objs...)
		reply2 := doCall(c, pool) // the same call again returns the same value
		calls++
		same := before == after
		if !same || reply != reply2 {
			changed++
		}
		e := obj{"op": "call", "m": c.m, "a": c.a, "b": c.b, "unchanged": same, "repeatable": reply == reply2}
		if !same || reply != reply2 || calls%53 == 0 {
			e["A"] = pool[c.a].tree.JSON()
			e["viaA"] = pool[c.a].via
			if c.b >= 0 {
				e["B"] = pool[c.b].tree.JSON()
			}
		}
		ev.Emit(e)
	}
	// fresh objects for every (object, method): a lazily filled cache changes the digest on FIRST use
	for a := range pool {
		for _, m := range unary16 {
			emit(call16{m, a, -1})
		}
	}
	pool, _ = buildPool(args[0]) // fresh pool for the binary methods
	for a := range pool {
		for k := 0; k < 6; k++ {
			b := rng.Intn(len(pool))
			emit(call16{binary16[rng.Intn(len(binary16))], a, b})
		}
	}
	printJSON(obj{"pool": len(pool), "calls": calls, "changed": changed, "events": ev.N})
	return nil
}

func c16stress(args []string) error {
	if len(args) != 5 {
		return fmt.Errorf("usage: c16stress objects outdir seed G K")
	}
	seed, G, K := atoi(args[2]), atoi(args[3]), atoi(args[4])
	rng := rand.New(rand.NewSource(int64(seed)))
	// two identical pools: one queried alone first (solo replies), one shared by the goroutines from its first use on
	soloPool, err := buildPool(args[0])
	if err != nil {
		return err
	}
	shared, _ := buildPool(args[0])
	var calls []call16
	for k := 0; k < K; k++ {
		a := rng.Intn(len(shared))
		if rng.Intn(3) == 0 {
			calls = append(calls, call16{unary16[rng.Intn(len(unary16))], a, -1})
		} else {
			calls = append(calls, call16{binary16[rng.Intn(len(binary16))], a, rng.Intn(len(shared))})
		}
	}
	solo := make([]string, K)
	for k, c := range calls {
		solo[k] = doCall(c, soloPool)
	}
	ev, err := newEvents(args[1] + "/c16.stress.ndjson")
	if err != nil {
		return err
	}
	defer ev.Close()
	for k, c := range calls {
		e := obj{"op": "solo", "k": k, "m": c.m, "a": c.a, "b": c.b, "reply": fnvs(solo[k])}
		ev.Emit(e)
	}
	runtime.GOMAXPROCS([]int{1, 4, 16}[seed%3])
	var wg sync.WaitGroup
	for g := 0; g < G; g++ {
		wg.Add(1)
		grng := rand.New(rand.NewSource(int64(seed)*101 + int64(g)))
		go func(g int) {
			defer wg.Done()
			order := grng.Perm(K)
			for seq, k := range order {
				r := doCall(calls[k], shared)
				if grng.Intn(8) == 0 {
					runtime.Gosched()
				}
				ev.Emit(obj{"op": "conc", "g": g, "seq": seq, "k": k, "reply": fnvs(r), "same": r == solo[k]})
			}
		}(g)
	}
	wg.Wait()
	printJSON(obj{"pool": len(shared), "calls": K, "goroutines": G, "events": ev.N, "gomaxprocs": runtime.GOMAXPROCS(0)})
	return nil
}

func fnvs(s string) uint64 {
	h := fnv.New64a()
	h.Write([]byte(s))
	return h.Sum64() % (1 << 30)
}

// c16solo <objects> <order>: every unary method on every pool object of a FRESH process, in the given order ("fwd" / "rev");
// prints one line "a method hash". The same call on an identical fresh object must not depend on what was called before it in the
// process ("returns the same value it returns when run alone"): package-level caches keyed too coarsely show up as different replies
// between the two orders.
func init() {
	commands["c16solo"] = func(args []string) error {
		if len(args) != 2 {
			return fmt.Errorf("usage: c16solo objects fwd|rev")
		}
		pool, err := buildPool(args[0])
		if err != nil {
			return err
		}
		idx := make([]int, len(pool))
		for i := range idx {
			idx[i] = i
			if args[1] == "rev" {
				idx[i] = len(pool) - 1 - i
			}
		}
		out := map[string]string{}
		for _, a := range idx {
			ms := unary16
			for k := range ms {
				m := ms[k]
				if args[1] == "rev" {
					m = ms[len(ms)-1-k]
				}
				reply := doCall(call16{m, a, -1}, pool)
				h := fnv.New64a()
				h.Write([]byte(reply))
				out[fmt.Sprintf("%d %s", a, m)] = fmt.Sprintf("%x %s", h.Sum64(), pool[a].via)
			}
		}
		printJSON(out)
		return nil
	}
}
