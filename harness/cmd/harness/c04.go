package main

import (
	"encoding/binary"
	"fmt"
	"math"
	"math/rand"
	"sort"

	"github.com/tidwall/geojson/geometry"
)

// c04 <outdir> <seed> <tier>
//
// Records Series.Search calls of the real code at the real constants
// (qMaxItems 32, qMaxDepth 16, rMaxEntries 16) for Trace_C04.tla.
func init() { commands["c04"] = c04 }

type idxStats struct {
	QNodes, QSplit, QSplitWithOverflow, QMaxDepth, QDepthBuckets int
	QWidth                                                       [5]int
	RHeightMax                                                   int
	RWidth                                                       [5]int
	RLeaves                                                      int
	Series, Indexed                                              int
}

func (st *idxStats) decode(idx interface{}) {
	data, ok := idx.([]byte)
	if !ok || len(data) < 5 {
		return
	}
	st.Indexed++
	n := binary.LittleEndian.Uint32(data[1:])
	data = data[:n]
	switch data[0] {
	case 2:
		st.qnode(data, 5, 0)
	case 1:
		if len(data) > 5 {
			h := int(data[5])
			if h > st.RHeightMax {
				st.RHeightMax = h
			}
			st.rnode(data, 6, h)
		}
	}
}

func (st *idxStats) qnode(data []byte, addr, depth int) {
	st.QNodes++
	if depth > st.QMaxDepth {
		st.QMaxDepth = depth
	}
	ib := int(data[addr])
	st.QWidth[ib]++
	addr++
	var n int
	switch ib {
	case 1:
		n = int(data[addr])
	case 2:
		n = int(binary.LittleEndian.Uint16(data[addr:]))
	default:
		n = int(binary.LittleEndian.Uint32(data[addr:]))
	}
	addr += ib + n*ib
	if depth == 16 && n > 32 {
		st.QDepthBuckets++
	}
	split := data[addr] == 1
	addr++
	if !split {
		return
	}
	st.QSplit++
	if n > 0 {
		st.QSplitWithOverflow++
	}
	for q := 0; q < 4; q++ {
		use := data[addr] == 1
		addr++
		if !use {
			continue
		}
		na := int(binary.LittleEndian.Uint32(data[addr:]))
		addr += 4
		st.qnode(data, na, depth+1)
	}
}

func (st *idxStats) rnode(data []byte, addr, height int) {
	addr += 32
	count := int(data[addr])
	addr++
	if height == 0 {
		st.RLeaves++
		st.RWidth[int(data[addr])]++
		return
	}
	for i := 0; i < count; i++ {
		na := int(binary.LittleEndian.Uint32(data[addr:]))
		addr += 4
		st.rnode(data, na, height-1)
	}
}

type layout struct {
	name string
	gen  func(rng *rand.Rand, n int) [][]int
}

var layouts = []layout{
	{"uniform", func(rng *rand.Rand, n int) [][]int {
		out := make([][]int, n)
		for i := range out {
			out[i] = []int{rng.Intn(1001), rng.Intn(1001)}
		}
		return out
	}},
	{"clustered", func(rng *rand.Rand, n int) [][]int {
		cs := [][]int{{100, 100}, {900, 200}, {512, 512}, {500, 500}}
		out := make([][]int, n)
		for i := range out {
			if rng.Intn(50) == 0 {
				out[i] = []int{rng.Intn(1025), rng.Intn(1025)}
				continue
			}
			c := cs[rng.Intn(len(cs))]
			out[i] = []int{c[0] + rng.Intn(21) - 10, c[1] + rng.Intn(21) - 10}
		}
		return out
	}},
	{"collinear", func(rng *rand.Rand, n int) [][]int {
		out := make([][]int, n)
		for i := range out {
			t := rng.Intn(500)
			out[i] = []int{2 * t, 3 * t}
		}
		return out
	}},
	{"duplicate", func(rng *rand.Rand, n int) [][]int {
		out := make([][]int, n)
		for i := range out {
			out[i] = []int{7, 7}
		}
		if n > 3 && rng.Intn(2) == 0 {
			out[n/2] = []int{9, 7}
		}
		return out
	}},
	{"zero-extent-x", func(rng *rand.Rand, n int) [][]int {
		out := make([][]int, n)
		for i := range out {
			out[i] = []int{5, rng.Intn(1025)}
		}
		return out
	}},
	{"dyadic-grid", func(rng *rand.Rand, n int) [][]int { // boxes sit exactly on cell midlines of [0,1024]^2
		out := make([][]int, n)
		for i := range out {
			k := uint(rng.Intn(8) + 3)
			out[i] = []int{(rng.Intn(1<<(10-k)+1) << k), (rng.Intn(1<<(10-k)+1) << k)}
		}
		if n > 1 {
			out[0] = []int{0, 0}
			out[n-1] = []int{1024, 1024}
		}
		return out
	}},
	{"zigzag-midline", func(rng *rand.Rand, n int) [][]int { // every segment straddles the vertical midline: all items stay in the root overflow list
		out := make([][]int, n)
		for i := range out {
			if i%2 == 0 {
				out[i] = []int{0, i}
			} else {
				out[i] = []int{1024, i}
			}
		}
		return out
	}},
	{"long-short", func(rng *rand.Rand, n int) [][]int { // many short steps on a circle-ish walk with a far jump every 25th point
		out := make([][]int, n)
		x, y := 500, 500
		for i := range out {
			if i%25 == 24 {
				out[i] = []int{rng.Intn(1001), rng.Intn(1001)}
				continue
			}
			x += rng.Intn(7) - 3
			y += rng.Intn(7) - 3
			out[i] = []int{x, y}
		}
		return out
	}},
	{"deep-corner", func(rng *rand.Rand, n int) [][]int { // almost everything within one unit of a corner of a huge box: depth-limit buckets
		out := make([][]int, n)
		for i := range out {
			out[i] = []int{rng.Intn(2), rng.Intn(2)}
		}
		if n > 0 {
			out[0] = []int{1 << 20, 1 << 20}
		}
		return out
	}},
}

func c04(args []string) error {
	if len(args) != 3 {
		return fmt.Errorf("usage: c04 outdir seed tier")
	}
	outdir, seed, tier := args[0], atoi(args[1]), args[2]
	ev, err := newEvents(outdir + "/c04.events.ndjson")
	if err != nil {
		return err
	}
	defer ev.Close()
	mv, err := newEvents(outdir + "/c04.move.ndjson")
	if err != nil {
		return err
	}
	defer mv.Close()
	rng := rand.New(rand.NewSource(int64(seed)))
	var st idxStats
	sizes := []int{0, 1, 2, 3, 4, 31, 32, 33, 34, 35, 63, 64, 65, 66, 100, 255, 256, 257, 258, 259, 300, 513, 1000}
	big := []int{5000}
	if tier == "thorough" {
		sizes = append(sizes, 2000, 3000, 4097)
		big = []int{5000, 20000, 65536, 65537, 65538, 70000}
	} else {
		big = append(big, 65538)
	}
	searches, calls := 0, 0
	var explicit []geometry.Point // when set, record() uses these float points as they are (ranks mode)
	record := func(pts [][]int, closed bool, name string, nq int, ranks bool) {
		fpts := make([]geometry.Point, len(pts))
		for i, p := range pts {
			if explicit != nil {
				break
			}
			fpts[i] = geometry.Point{X: float64(p[0]), Y: float64(p[1])}
			if ranks { // non-lattice floats: the log then carries ranks, not values
				fpts[i] = geometry.Point{X: float64(p[0])*0.1 + 1e-7*float64(p[1]%7), Y: math.Sqrt(float64(p[1])) * 3.7}
			}
		}
		if explicit != nil {
			fpts = explicit
		}
		n := len(pts)
		cfgs := []geometry.IndexOptions{{Kind: geometry.None, MinPoints: 0}, {Kind: geometry.RTree, MinPoints: 1}, {Kind: geometry.QuadTree, MinPoints: 1},
			{Kind: geometry.QuadTree, MinPoints: n}, {Kind: geometry.RTree, MinPoints: n + 1}, {Kind: geometry.QuadTree, MinPoints: 64}, {Kind: geometry.RTree, MinPoints: 64}}
		if n > 3000 {
			cfgs = cfgs[1:3]
		}
		// coordinate log: values or ranks
		var xs, ys []float64
		logPts := pts
		if ranks {
			for _, p := range fpts {
				xs = append(xs, p.X)
				ys = append(ys, p.Y)
			}
		}
		type q struct {
			r    geometry.Rect
			stop int
		}
		var qs []q
		inf := math.Inf(1)
		for k := 0; k < nq; k++ {
			var r geometry.Rect
			var a, b geometry.Point
			if n > 0 {
				a, b = fpts[rng.Intn(n)], fpts[rng.Intn(n)]
			}
			switch rng.Intn(9) {
			case 0: // a vertex
				r = geometry.Rect{Min: a, Max: a}
			case 1: // horizontal strip (what ringContainsPoint uses)
				r = geometry.Rect{Min: geometry.Point{X: -inf, Y: a.Y}, Max: geometry.Point{X: inf, Y: a.Y}}
			case 2: // box between two vertices
				r = geometry.Rect{Min: geometry.Point{X: math.Min(a.X, b.X), Y: math.Min(a.Y, b.Y)}, Max: geometry.Point{X: math.Max(a.X, b.X), Y: math.Max(a.Y, b.Y)}}
			case 3: // everything
				r = geometry.Rect{Min: geometry.Point{X: -inf, Y: -inf}, Max: geometry.Point{X: inf, Y: inf}}
			case 4: // degenerate on the outer border of the series' bounding box
				mx, my := -inf, -inf
				for _, p := range fpts {
					mx, my = math.Max(mx, p.X), math.Max(my, p.Y)
				}
				if rng.Intn(2) == 0 {
					r = geometry.Rect{Min: geometry.Point{X: mx, Y: a.Y}, Max: geometry.Point{X: mx + 5, Y: b.Y + 3}}
				} else {
					r = geometry.Rect{Min: geometry.Point{X: a.X, Y: my}, Max: geometry.Point{X: a.X, Y: my}}
				}
			case 5: // midlines of the bounding box
				mnx, mny, mx, my := inf, inf, -inf, -inf
				for _, p := range fpts {
					mnx, mny, mx, my = math.Min(mnx, p.X), math.Min(mny, p.Y), math.Max(mx, p.X), math.Max(my, p.Y)
				}
				cx, cy := (mnx+mx)/2, (mny+my)/2
				r = geometry.Rect{Min: geometry.Point{X: cx, Y: mny}, Max: geometry.Point{X: cx, Y: cy}}
			case 6: // vertical strip
				r = geometry.Rect{Min: geometry.Point{X: a.X, Y: -inf}, Max: geometry.Point{X: b.X, Y: inf}}
				if r.Min.X > r.Max.X {
					r.Min.X, r.Max.X = r.Max.X, r.Min.X
				}
			case 7: // small box around a vertex
				r = geometry.Rect{Min: geometry.Point{X: a.X - 2, Y: a.Y - 2}, Max: geometry.Point{X: a.X + 2, Y: a.Y + 2}}
			default: // far away
				r = geometry.Rect{Min: geometry.Point{X: -50, Y: -50}, Max: geometry.Point{X: -40, Y: 1e7}}
			}
			if !ranks { // lattice mode logs values: keep every finite query coordinate integral
				fl := func(v float64) float64 {
					if math.IsInf(v, 0) {
						return v
					}
					return math.Floor(v)
				}
				r = geometry.Rect{Min: geometry.Point{X: fl(r.Min.X), Y: fl(r.Min.Y)}, Max: geometry.Point{X: fl(r.Max.X), Y: fl(r.Max.Y)}}
			}
			stop := 0
			switch rng.Intn(4) {
			case 0:
				stop = 1
			case 1:
				stop = 1 + rng.Intn(6)
			}
			qs = append(qs, q{r, stop})
			if ranks {
				xs = append(xs, r.Min.X, r.Max.X)
				ys = append(ys, r.Min.Y, r.Max.Y)
			}
		}
		rankOf := func(vals []float64) func(float64) int {
			s := append([]float64{}, vals...)
			sort.Float64s(s)
			u := s[:0]
			for i, v := range s {
				if i == 0 || v != s[i-1] {
					u = append(u, v)
				}
			}
			return func(v float64) int { return sort.SearchFloat64s(u, v) }
		}
		var rx, ry func(float64) int
		if ranks {
			rx, ry = rankOf(xs), rankOf(ys)
			logPts = make([][]int, n)
			for i, p := range fpts {
				logPts[i] = []int{rx(p.X), ry(p.Y)}
			}
		} else {
			clampI := func(v float64) int {
				if math.IsInf(v, 1) || v > 1<<28 {
					return 1 << 28
				}
				if math.IsInf(v, -1) || v < -(1<<28) {
					return -(1 << 28)
				}
				return int(math.Floor(v))
			}
			rx, ry = clampI, clampI
		}
		var nseg int
		if closed {
			nseg = geometry.NewPoly(fpts, nil, &indexConfigs[0]).Exterior.NumSegments()
		} else {
			nseg = geometry.NewLine(fpts, &indexConfigs[0]).NumSegments()
		}
		ev.Emit(obj{"op": "series", "pts": nonNil2(logPts), "closed": closed, "nseg": nseg, "layout": name, "ranks": ranks})
		sref := ev.N
		st.Series++
		for ci, opts := range cfgs {
			opts := opts
			func() {
				defer func() {
					if r := recover(); r != nil { // a panic while building or searching an index: no action of the spec accepts it
						ev.Emit(obj{"op": "panic", "sref": sref, "msg": fmt.Sprint(r), "kind": opts.Kind.String(), "minpts": opts.MinPoints,
							"q": []int{}, "hits": []int{}, "stop": 0, "dx": 0, "dy": 0})
					}
				}()
				var ser geometry.Series
				var line *geometry.Line
				var poly *geometry.Poly
				if closed {
					poly = geometry.NewPoly(fpts, nil, &opts)
					ser = poly.Exterior
				} else {
					line = geometry.NewLine(fpts, &opts)
					ser = line
				}
				st.decode(ser.Index())
				// Move by offsets whose sums are inexact: the moved indexed series against an index-free series of the same moved points
				small := true // moderate magnitudes only (the offsets would vanish, and midpoints overflow, in the huge layouts)
				for _, p := range fpts {
					if !(math.Abs(p.X) < 1e12 && math.Abs(p.Y) < 1e12) {
						small = false
						break
					}
				}
				if n >= 2 && n <= 5000 && opts.Kind != geometry.None && mv != nil && small {
					for oi, off := range [][2]float64{{-0.1, 0.3}, {1e-7, -1e-7}, {123.456, -0.001}, {0.1, 0.2}} {
						if (oi+ci+len(fpts))%2 == 0 {
							continue
						}
						var moved geometry.Series
						if closed {
							moved = poly.Move(off[0], off[1]).Exterior
						} else {
							moved = line.Move(off[0], off[1])
						}
						mpts := make([]geometry.Point, len(fpts))
						for i, p := range fpts {
							mpts[i] = geometry.Point{X: p.X + off[0], Y: p.Y + off[1]}
						}
						var plain geometry.Series
						if closed {
							plain = geometry.NewPoly(mpts, nil, &indexConfigs[0]).Exterior
						} else {
							plain = geometry.NewLine(mpts, &indexConfigs[0])
						}
						mb := plain.Rect()
						cx, cy := (mb.Min.X+mb.Max.X)/2, (mb.Min.Y+mb.Max.Y)/2
						queries := []geometry.Rect{mb, {Min: mb.Min, Max: geometry.Point{X: cx, Y: cy}}, {Min: geometry.Point{X: cx, Y: cy}, Max: mb.Max},
							{Min: geometry.Point{X: mb.Min.X, Y: mb.Max.Y}, Max: mb.Max}, {Min: mpts[0], Max: mpts[0]}, {Min: mpts[len(mpts)/2], Max: mpts[len(mpts)/2]},
							{Min: geometry.Point{X: mb.Max.X, Y: mb.Min.Y}, Max: geometry.Point{X: mb.Max.X, Y: mb.Max.Y}}}
						for _, q := range queries {
							collect := func(sr geometry.Series) []int {
								h := []int{}
								sr.Search(q, func(_ geometry.Segment, idx int) bool { h = append(h, idx); return true })
								sort.Ints(h)
								return h
							}
							mv.Emit(obj{"op": "movecmp", "layout": name, "points": n, "kind": opts.Kind.String(), "minpts": opts.MinPoints, "dx": off[0], "dy": off[1],
								"q": []float64{q.Min.X, q.Min.Y, q.Max.X, q.Max.Y}, "indexed": collect(moved), "plain": collect(plain)})
						}
					}
				}
				for qi, qq := range qs {
					if n > 3000 && qi%len(cfgs) != ci%len(cfgs) && qi > 3 {
						continue
					}
					dx, dy := 0, 0
					s2 := ser
					r := qq.r
					if !ranks && (qi+ci)%5 == 4 { // the moved shape keeps answering as an index-free shape would
						dx, dy = rng.Intn(2001)-1000, rng.Intn(2001)-1000
						if closed {
							s2 = poly.Move(float64(dx), float64(dy)).Exterior
						} else {
							s2 = line.Move(float64(dx), float64(dy))
						}
						r = r.Move(float64(dx), float64(dy))
						st.decode(s2.Index())
					}
					var hits []int
					var segs [][][]int
					after := 0
					stopped := false
					s2.Search(r, func(seg geometry.Segment, idx int) bool {
						calls++
						if stopped {
							after++
							return false
						}
						hits = append(hits, idx)
						if len(segs) < 6 && !ranks {
							segs = append(segs, [][]int{{int(seg.A.X), int(seg.A.Y)}, {int(seg.B.X), int(seg.B.Y)}})
						}
						if qq.stop > 0 && len(hits) == qq.stop {
							stopped = true
							return false
						}
						return true
					})
					if len(segs) < len(hits) && len(hits) > 6 {
						segs = nil // only small results carry their segments
					}
					if hits == nil {
						hits = []int{}
					}
					if segs == nil {
						segs = [][][]int{}
					}
					ev.Emit(obj{"op": "search", "sref": sref, "q": []int{rx(r.Min.X), ry(r.Min.Y), rx(r.Max.X), ry(r.Max.Y)}, "stop": qq.stop,
						"hits": hits, "segs": segs, "after": after, "dx": dx, "dy": dy, "kind": opts.Kind.String(), "minpts": opts.MinPoints})
					searches++
				}
			}()
		}
	}
	for _, n := range sizes {
		for li, l := range layouts {
			if tier != "thorough" && n > 300 && (li+n)%3 != 0 {
				continue
			}
			pts := l.gen(rng, n)
			nq := 6
			if n > 500 {
				nq = 4
			}
			record(pts, (li+n)%2 == 0, l.name, nq, false)
		}
		record(layouts[0].gen(rng, n), n%2 == 1, "uniform-floats", 5, true)
	}
	// vertices ON and ONE ULP AROUND the cell midlines of the series' bounding box (float midlines, several depths),
	// and coordinates of huge magnitude: the order embedding makes arbitrary floats judgeable
	for _, bb := range [][4]float64{{-180, -90, 56.7, 83.1}, {-73.3, 0.1, 141.9, 0.7}, {1e-3, -7e5, 7e5, 3}, {-1e308, -1e308, 1e308, 1.5e308}, {1e300, 1e300, 1.1e300, 2e300}} {
		var mx, my []float64
		var rec func(a, b float64, d int, out *[]float64)
		rec = func(a, b float64, d int, out *[]float64) {
			if d == 0 {
				return
			}
			m := (a + b) / 2
			*out = append(*out, m)
			rec(a, m, d-1, out)
			rec(m, b, d-1, out)
		}
		rec(bb[0], bb[2], 4, &mx)
		rec(bb[1], bb[3], 4, &my)
		var fp []geometry.Point
		fp = append(fp, geometry.Point{X: bb[0], Y: bb[1]})
		for i := range mx {
			for _, dxu := range []int{-1, 0, 1} {
				x, y := mx[i], my[(i*7+dxu+15)%len(my)]
				if dxu != 0 {
					x = math.Nextafter(x, math.Inf(dxu))
					y = math.Nextafter(y, math.Inf(-dxu))
				}
				fp = append(fp, geometry.Point{X: x, Y: y})
			}
		}
		fp = append(fp, geometry.Point{X: bb[2], Y: bb[3]})
		explicit = fp
		record(make([][]int, len(fp)), false, "float-midlines", 40, true)
		explicit = nil
	}
	for _, n := range big {
		l := layouts[rng.Intn(3)]
		if n > 60000 {
			l = layouts[0]
		}
		record(l.gen(rng, n), false, l.name, 6, false)
	}
	// ---- callback ORDER of small indexed series, for the model-conformance diagnostic (Trace_QT / Trace_RT)
	qt, err := newEvents(outdir + "/c04.qt.ndjson")
	if err != nil {
		return err
	}
	rt, err := newEvents(outdir + "/c04.rt.ndjson")
	if err != nil {
		return err
	}
	for _, n := range []int{5, 33, 34, 40, 70, 100, 160, 257} {
		for li, l := range layouts[:8] {
			if tier != "thorough" && (li+n)%2 == 0 {
				continue
			}
			base := l.gen(rng, n)
			closed := (li+n)%3 == 0
			for _, kind := range []geometry.IndexKind{geometry.QuadTree, geometry.RTree} {
				scale := 1
				if kind == geometry.QuadTree {
					scale = 1 << 16
				}
				pts := make([][]int, n)
				fpts := make([]geometry.Point, n)
				for i, p := range base {
					x, y := p[0]%1025, p[1]%1025
					pts[i] = []int{x * scale, y * scale}
					fpts[i] = geometry.Point{X: float64(x * scale), Y: float64(y * scale)}
				}
				opts := geometry.IndexOptions{Kind: kind, MinPoints: 1}
				var ser geometry.Series
				func() {
					defer func() {
						if r := recover(); r != nil { // building the index panicked: reported through the main trace
							ev.Emit(obj{"op": "panic", "sref": 1, "msg": fmt.Sprint(r), "kind": kind.String(), "minpts": 1, "q": []int{}, "hits": []int{}, "stop": 0, "dx": 0, "dy": 0})
							ser = nil
						}
					}()
					if closed {
						ser = geometry.NewPoly(fpts, nil, &opts).Exterior
					} else {
						ser = geometry.NewLine(fpts, &opts)
					}
				}()
				if ser == nil {
					continue
				}
				for k := 0; k < 3; k++ {
					a, b := pts[rng.Intn(n)], pts[rng.Intn(n)]
					q := []int{minI(a[0], b[0]), minI(a[1], b[1]), maxI(a[0], b[0]), maxI(a[1], b[1])}
					if k == 2 {
						q = []int{-scale, -scale, 2000 * scale, 2000 * scale}
					}
					hits := []int{}
					ser.Search(geometry.Rect{Min: geometry.Point{X: float64(q[0]), Y: float64(q[1])}, Max: geometry.Point{X: float64(q[2]), Y: float64(q[3])}},
						func(_ geometry.Segment, idx int) bool { hits = append(hits, idx); return true })
					e := obj{"op": "order", "pts": pts, "closed": closed, "q": q, "hits": hits, "layout": l.name}
					if kind == geometry.QuadTree {
						qt.Emit(e)
					} else {
						rt.Emit(e)
					}
				}
			}
		}
	}
	qt.Close()
	rt.Close()
	printJSON(obj{"events": ev.N, "series": st.Series, "searches": searches, "callbacks": calls, "index_stats": st, "order_events": qt.N + rt.N})
	return nil
}
