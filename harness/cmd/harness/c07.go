package main

import (
	"encoding/json"
	"fmt"
	"math/rand"
	"strings"

	"github.com/tidwall/geojson"
)

// c07 <docs.lines> <outdir> <seed> <nrender>
func init() { commands["c07"] = c07 }

type docRow struct {
	b       int
	mut     json.RawMessage
	ast     AST
	rawAST  json.RawMessage
	verdict string
	decode  json.RawMessage
	l2acc   bool
	l2site  string
}

func loadDocs(path string) ([]docRow, error) {
	var rows []docRow
	err := readLines(path, func(line []byte) error {
		var raw []json.RawMessage
		if err := json.Unmarshal(line, &raw); err != nil {
			return err
		}
		var r docRow
		json.Unmarshal(raw[1], &r.b)
		r.mut = append(json.RawMessage{}, raw[2]...)
		a, err := parseAST(raw[3])
		if err != nil {
			return err
		}
		r.ast = a
		r.rawAST = append(json.RawMessage{}, raw[3]...)
		json.Unmarshal(raw[4], &r.verdict)
		r.decode = append(json.RawMessage{}, raw[5]...)
		if len(raw) > 7 {
			json.Unmarshal(raw[6], &r.l2acc)
			json.Unmarshal(raw[7], &r.l2site)
		}
		rows = append(rows, r)
		return nil
	})
	return rows, err
}

func c07(args []string) error {
	if len(args) != 4 {
		return fmt.Errorf("usage: c07 docs outdir seed nrender")
	}
	rows, err := loadDocs(args[0])
	if err != nil {
		return err
	}
	seed, nrender := atoi(args[2]), atoi(args[3])
	ev, err := newEvents(args[1] + "/c07.events.ndjson")
	if err != nil {
		return err
	}
	defer ev.Close()
	rng := rand.New(rand.NewSource(int64(seed)))
	evals, mism, drift := 0, 0, 0
	count := map[string]int{}
	for _, r := range rows {
		for k := 0; k < nrender; k++ {
			ro := renderOpts{table: tokenTables[k%len(tokenTables)]}
			if k > 0 {
				ro.rng = rng
				ro.spaces = rng.Intn(2) == 0
				ro.escape = rng.Intn(3) == 0
			}
			text := r.ast.Text(ro)
			variant := "plain"
			want := r.verdict
			kk := k
			if k >= 6 {
				kk = k % 6
			}
			switch {
			case kk == 2 && r.verdict == "acc":
				text = " \t\r\n" + text + "\n \t"
				variant = "surrounding-whitespace"
			case kk == 3:
				text = text + []string{"x", "}", " {}", ",", "0"}[rng.Intn(5)]
				variant, want = "trailing-garbage", "rej"
			case kk == 5:
				// characters Go's unicode.IsSpace accepts but JSON does not: the text is not valid JSON
				ws := []string{"\f", "\v", "\u0085", "\u00a0", "\u2028", "\u3000", "\ufeff"}[rng.Intn(7)]
				if rng.Intn(2) == 0 {
					text = ws + text
				} else {
					text = text + ws
				}
				variant, want = "non-json-whitespace", "rej"
			case kk == 4 && len(text) > 2:
				cut := 1 + rng.Intn(len(text)-1)
				text = text[:cut]
				variant, want = "truncated", "rej"
			}
			po := parseOptSets[(k+r.b)%len(parseOptSets)]
			o, perr := geojson.Parse(text, &po)
			evals++
			count[want]++
			bad := func(what string, got interface{}) {
				mism++
				ev.Emit(obj{"op": "parse", "what": what, "doc": r.rawAST, "b": r.b, "mut": r.mut, "variant": variant, "exp": want, "got": got,
					"accepted": perr == nil, "l2acc": r.l2acc, "l2site": r.l2site,
					"text": clip(text, 400), "table": k % len(tokenTables), "src": "replay"})
			}
			if variant == "plain" || variant == "surrounding-whitespace" { // conformance of the code to the L2 transcription (all documents, also the unspecified ones)
				if (perr == nil) != r.l2acc {
					drift++
				}
			}
			if (o == nil) == (perr == nil) {
				bad("contract", fmt.Sprintf("object=%v error=%v", o != nil, perr))
				continue
			}
			switch want {
			case "acc":
				if perr != nil {
					bad("rejected", perr.Error())
				} else if !treeEqual(project(o), r.decode, ro.table) {
					pj, _ := json.Marshal(project(o))
					bad("decoded", json.RawMessage(pj))
				}
			case "rej":
				if perr == nil {
					bad("accepted", o.JSON())
				}
			}
		}
	}
	printJSON(obj{"docs": len(rows), "evaluations": evals, "mismatches": mism, "events": ev.N, "by_expected": count, "l2_drift": drift})
	return nil
}

func clip(s string, n int) string {
	if len(s) > n {
		return s[:n] + fmt.Sprintf("...(%d bytes)", len(s))
	}
	return s
}

var _ = strings.Repeat
