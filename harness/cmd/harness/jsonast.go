package main

import (
	"bytes"
	"encoding/json"
	"fmt"
	"math"
	"math/rand"
	"strconv"
	"strings"

	"github.com/tidwall/geojson"
)

// AST mirrors spec/JsonAst.tla: ["n",k] ["s",str] ["z"] ["t"] ["a",items] ["o",[[key,value]...]]
type AST struct {
	Tag   string
	N     int
	S     string
	Items []AST
	Keys  []string // for objects: Keys[i] goes with Items[i]
}

func parseAST(raw json.RawMessage) (AST, error) {
	var parts []json.RawMessage
	var a AST
	if err := json.Unmarshal(raw, &parts); err != nil {
		return a, err
	}
	if err := json.Unmarshal(parts[0], &a.Tag); err != nil {
		return a, err
	}
	switch a.Tag {
	case "n":
		return a, json.Unmarshal(parts[1], &a.N)
	case "s":
		return a, json.Unmarshal(parts[1], &a.S)
	case "z", "t":
		return a, nil
	case "a":
		var items []json.RawMessage
		if err := json.Unmarshal(parts[1], &items); err != nil {
			return a, err
		}
		for _, it := range items {
			c, err := parseAST(it)
			if err != nil {
				return a, err
			}
			a.Items = append(a.Items, c)
		}
		return a, nil
	case "o":
		var mems [][]json.RawMessage
		if err := json.Unmarshal(parts[1], &mems); err != nil {
			return a, err
		}
		for _, m := range mems {
			var k string
			if err := json.Unmarshal(m[0], &k); err != nil {
				return a, err
			}
			c, err := parseAST(m[1])
			if err != nil {
				return a, err
			}
			a.Keys = append(a.Keys, k)
			a.Items = append(a.Items, c)
		}
		return a, nil
	}
	return a, fmt.Errorf("bad tag %q", a.Tag)
}

func (a AST) JSON() interface{} {
	switch a.Tag {
	case "n":
		return []interface{}{"n", a.N}
	case "s":
		return []interface{}{"s", a.S}
	case "z", "t":
		return []interface{}{a.Tag}
	case "a":
		items := make([]interface{}, len(a.Items))
		for i := range a.Items {
			items[i] = a.Items[i].JSON()
		}
		return []interface{}{"a", items}
	default:
		mems := make([]interface{}, len(a.Items))
		for i := range a.Items {
			mems[i] = []interface{}{a.Keys[i], a.Items[i].JSON()}
		}
		return []interface{}{"o", mems}
	}
}

// number token tables: distinct tokens have distinct float64 values
var tokenTables = [][]float64{
	// tokens 0..7: valid as longitude and latitude; 8: valid longitude only; 9: valid as neither (same classes in every table).
	// tokens 1..9 are increasing in every table, so that order-sensitive documents (perfect rectangles) keep their shape.
	{0, 1, 2, 3, 4, 5, 6, 7, 95, 200},
	{0, -89.99999999999999, -2.25, -0.000123, 1e-7, 9.123456789012345, 45.00000000000001, 89.99999999999999, 179.99999999999997, 12345678.875},
	{0, -1, math.Copysign(0, -1), 5e-324, 0.1, 0.2, 0.30000000000000004, 90, 123.456, 1.7976931348623157e308},
}

func init() {
	defer checkTables()
	// tokens 10..63 (used by the large documents of Gen_Doc): valid as longitude and latitude, increasing
	for id := 10; id < 64; id++ {
		tokenTables[0] = append(tokenTables[0], float64(id))
		tokenTables[1] = append(tokenTables[1], -80.03125+float64(id-10)*2.5) // offset keeps every value distinct from tokens 0..9
		tokenTables[2] = append(tokenTables[2], 0.40625+float64(id-10)*0.125)
	}
}

// spell writes value v in one of several JSON spellings that decode to the same float64
func spell(v float64, rng *rand.Rand) string {
	plain := strconv.FormatFloat(v, 'f', -1, 64)
	if math.Abs(v) >= 1e21 || (v != 0 && math.Abs(v) < 1e-7) {
		plain = strconv.FormatFloat(v, 'g', -1, 64)
	}
	if rng == nil {
		return plain
	}
	switch rng.Intn(5) {
	case 0:
		return strconv.FormatFloat(v, 'e', -1, 64)
	case 1:
		if v == math.Trunc(v) && math.Abs(v) < 1e15 {
			return plain + ".0"
		}
	case 2:
		return strings.Replace(strconv.FormatFloat(v, 'e', -1, 64), "e", "E", 1)
	}
	return plain
}

type renderOpts struct {
	rng    *rand.Rand
	table  []float64
	spaces bool
	escape bool
}

func (ro renderOpts) ws(sb *bytes.Buffer) {
	if ro.spaces && ro.rng != nil {
		sb.WriteString([]string{"", " ", "\n", "\t ", "\r\n  "}[ro.rng.Intn(5)])
	}
}

func jsonString(s string, escape bool, rng *rand.Rand) string {
	if escape && rng != nil && len(s) > 0 && s[0] < 0x80 && rng.Intn(2) == 0 { // escaped spelling of the first character
		rest, _ := json.Marshal(s[1:])
		return fmt.Sprintf("\"\\u%04x%s", s[0], rest[1:])
	}
	b, _ := json.Marshal(s)
	return string(b)
}

// Render writes the AST as JSON text.
func (a AST) Render(sb *bytes.Buffer, ro renderOpts) {
	switch a.Tag {
	case "n":
		sb.WriteString(spell(ro.table[a.N], ro.rng))
	case "s": // string values are spelled with an escaped first character as well (a type name written "\u0050oint" is "Point")
		sb.WriteString(jsonString(a.S, ro.escape, ro.rng))
	case "z":
		sb.WriteString("null")
	case "t":
		sb.WriteString("true")
	case "a":
		sb.WriteByte('[')
		for i, it := range a.Items {
			if i > 0 {
				sb.WriteByte(',')
			}
			ro.ws(sb)
			it.Render(sb, ro)
		}
		ro.ws(sb)
		sb.WriteByte(']')
	case "o":
		sb.WriteByte('{')
		for i, it := range a.Items {
			if i > 0 {
				sb.WriteByte(',')
			}
			ro.ws(sb)
			sb.WriteString(jsonString(a.Keys[i], ro.escape, ro.rng))
			ro.ws(sb)
			sb.WriteByte(':')
			ro.ws(sb)
			it.Render(sb, ro)
		}
		ro.ws(sb)
		sb.WriteByte('}')
	}
}

func (a AST) Text(ro renderOpts) string {
	var sb bytes.Buffer
	a.Render(&sb, ro)
	return sb.String()
}

// project maps a real object to the tree form of spec/GeoDoc.tla!Decode with float64 coordinates.
func project(o geojson.Object) interface{} {
	xy := func(x, y float64) interface{} { return []float64{x, y} }
	switch v := o.(type) {
	case *geojson.Point:
		return []interface{}{"Point", xy(v.Base().X, v.Base().Y)}
	case *geojson.SimplePoint:
		return []interface{}{"Point", xy(v.Base().X, v.Base().Y)}
	case *geojson.LineString:
		l := v.Base()
		pts := []interface{}{}
		for i := 0; i < l.NumPoints(); i++ {
			pts = append(pts, xy(l.PointAt(i).X, l.PointAt(i).Y))
		}
		return []interface{}{"LineString", pts}
	case *geojson.Polygon:
		p := v.Base()
		rings := []interface{}{}
		if p.Exterior != nil {
			add := func(r interface {
				NumPoints() int
			}, at func(i int) (float64, float64)) {
				pts := []interface{}{}
				for i := 0; i < r.NumPoints(); i++ {
					x, y := at(i)
					pts = append(pts, xy(x, y))
				}
				rings = append(rings, pts)
			}
			add(p.Exterior, func(i int) (float64, float64) { q := p.Exterior.PointAt(i); return q.X, q.Y })
			for _, h := range p.Holes {
				h := h
				add(h, func(i int) (float64, float64) { q := h.PointAt(i); return q.X, q.Y })
			}
		}
		return []interface{}{"Polygon", rings}
	case *geojson.Rect:
		r := v.Base()
		return []interface{}{"Polygon", []interface{}{[]interface{}{xy(r.Min.X, r.Min.Y), xy(r.Max.X, r.Min.Y), xy(r.Max.X, r.Max.Y), xy(r.Min.X, r.Max.Y), xy(r.Min.X, r.Min.Y)}}}
	case *geojson.MultiPoint:
		pts := []interface{}{}
		for _, c := range v.Children() {
			pts = append(pts, project(c).([]interface{})[1])
		}
		return []interface{}{"MultiPoint", pts}
	case *geojson.MultiLineString:
		ls := []interface{}{}
		for _, c := range v.Children() {
			ls = append(ls, project(c).([]interface{})[1])
		}
		return []interface{}{"MultiLineString", ls}
	case *geojson.MultiPolygon:
		ps := []interface{}{}
		for _, c := range v.Children() {
			ps = append(ps, project(c).([]interface{})[1])
		}
		return []interface{}{"MultiPolygon", ps}
	case *geojson.GeometryCollection:
		cs := []interface{}{}
		for _, c := range v.Children() {
			cs = append(cs, project(c))
		}
		return []interface{}{"GeometryCollection", cs}
	case *geojson.FeatureCollection:
		cs := []interface{}{}
		for _, c := range v.Children() {
			cs = append(cs, project(c))
		}
		return []interface{}{"FeatureCollection", cs}
	case *geojson.Feature:
		return []interface{}{"Feature", project(v.Base())}
	case *geojson.Circle:
		return []interface{}{"Circle", xy(v.Center().X, v.Center().Y), v.Meters()}
	}
	return []interface{}{"?"}
}

// treeEqual compares a projected tree with a decode tree whose positions are token pairs.
func treeEqual(got interface{}, exp json.RawMessage, table []float64) bool {
	var parts []json.RawMessage
	if json.Unmarshal(exp, &parts) != nil || len(parts) != 2 {
		return false
	}
	g, ok := got.([]interface{})
	if !ok || len(g) < 2 {
		return false
	}
	var kind string
	json.Unmarshal(parts[0], &kind)
	if g[0] != kind {
		return false
	}
	switch kind {
	case "Point":
		return posEqual(g[1], parts[1], table)
	case "LineString", "MultiPoint":
		return seqEqual(g[1], parts[1], func(a interface{}, b json.RawMessage) bool { return posEqual(a, b, table) })
	case "Polygon", "MultiLineString":
		return seqEqual(g[1], parts[1], func(a interface{}, b json.RawMessage) bool {
			return seqEqual(a, b, func(a interface{}, b json.RawMessage) bool { return posEqual(a, b, table) })
		})
	case "MultiPolygon":
		return seqEqual(g[1], parts[1], func(a interface{}, b json.RawMessage) bool {
			return seqEqual(a, b, func(a interface{}, b json.RawMessage) bool {
				return seqEqual(a, b, func(a interface{}, b json.RawMessage) bool { return posEqual(a, b, table) })
			})
		})
	case "GeometryCollection", "FeatureCollection":
		return seqEqual(g[1], parts[1], func(a interface{}, b json.RawMessage) bool { return treeEqual(a, b, table) })
	case "Feature":
		return treeEqual(g[1], parts[1], table)
	}
	return false
}

func seqEqual(got interface{}, exp json.RawMessage, eq func(interface{}, json.RawMessage) bool) bool {
	var items []json.RawMessage
	if json.Unmarshal(exp, &items) != nil {
		return false
	}
	g, ok := got.([]interface{})
	if !ok || len(g) != len(items) {
		return false
	}
	for i := range g {
		if !eq(g[i], items[i]) {
			return false
		}
	}
	return true
}

func posEqual(got interface{}, exp json.RawMessage, table []float64) bool {
	var toks []int
	if json.Unmarshal(exp, &toks) != nil || len(toks) != 2 {
		return false
	}
	g, ok := got.([]float64)
	if !ok || len(g) != 2 {
		return false
	}
	return math.Float64bits(g[0]) == math.Float64bits(table[toks[0]]) && math.Float64bits(g[1]) == math.Float64bits(table[toks[1]])
}

// tokenize reads JSON text into an AST that keeps member order and duplicates
// (encoding/json's Decoder.Token is the "standard JSON decoder"); numbers are
// mapped back to the token whose float64 value has the same bits (-1 if none).
func tokenize(text string, table []float64) (AST, error) {
	dec := json.NewDecoder(strings.NewReader(text))
	dec.UseNumber()
	a, err := tokValue(dec, table)
	if err != nil {
		return a, err
	}
	if _, err := dec.Token(); err == nil {
		return a, fmt.Errorf("trailing data")
	}
	return a, nil
}

func tokValue(dec *json.Decoder, table []float64) (AST, error) {
	t, err := dec.Token()
	if err != nil {
		return AST{}, err
	}
	switch v := t.(type) {
	case json.Delim:
		switch v {
		case '[':
			a := AST{Tag: "a"}
			for dec.More() {
				c, err := tokValue(dec, table)
				if err != nil {
					return a, err
				}
				a.Items = append(a.Items, c)
			}
			_, err := dec.Token()
			return a, err
		case '{':
			a := AST{Tag: "o"}
			for dec.More() {
				k, err := dec.Token()
				if err != nil {
					return a, err
				}
				c, err := tokValue(dec, table)
				if err != nil {
					return a, err
				}
				a.Keys = append(a.Keys, k.(string))
				a.Items = append(a.Items, c)
			}
			_, err := dec.Token()
			return a, err
		}
	case json.Number:
		f, err := strconv.ParseFloat(string(v), 64)
		if err != nil {
			return AST{}, err
		}
		for k, tv := range table {
			if math.Float64bits(tv) == math.Float64bits(f) {
				return AST{Tag: "n", N: k}, nil
			}
		}
		return AST{Tag: "n", N: -1}, nil
	case string:
		return AST{Tag: "s", S: v}, nil
	case bool:
		return AST{Tag: "t"}, nil
	case nil:
		return AST{Tag: "z"}, nil
	}
	return AST{}, fmt.Errorf("unexpected token %v", t)
}

// checkTables panics if two token ids of one table denote the same float64 (ids must be recoverable from values)
func checkTables() {
	for ti, t := range tokenTables {
		seen := map[uint64]int{}
		for id, v := range t {
			if j, dup := seen[math.Float64bits(v)]; dup {
				panic(fmt.Sprintf("token table %d: ids %d and %d share value %v", ti, j, id, v))
			}
			seen[math.Float64bits(v)] = id
		}
	}
}
