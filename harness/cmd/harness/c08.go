package main

import (
	"crypto/sha1"
	"encoding/hex"
	"fmt"
	"math/rand"
	"sync"
	"sync/atomic"

	"github.com/tidwall/geojson"
	"github.com/tidwall/geojson/geometry"
)

// c08 <docs.rows> <outdir> <seed> <nrender>
//
// Parses every document under a product of ParseOptions and records the
// observations of each run in one "opts" trace event for Trace_C08.tla.
func init() { commands["c08"] = c08 }

type optRun struct {
	name  string
	class string
	po    geojson.ParseOptions
}

func optRuns() []optRun {
	d := geojson.ParseOptions{IndexChildren: 64, IndexGeometry: 64, IndexGeometryKind: geometry.QuadTree}
	mk := func(name, class string, f func(*geojson.ParseOptions)) optRun {
		po := d
		f(&po)
		return optRun{name, class, po}
	}
	return []optRun{
		{"default", "base", d},
		mk("index off", "index", func(p *geojson.ParseOptions) {
			p.IndexChildren, p.IndexGeometry, p.IndexGeometryKind = 0, 0, geometry.None
		}),
		mk("index 1/1 rtree", "index", func(p *geojson.ParseOptions) {
			p.IndexChildren, p.IndexGeometry, p.IndexGeometryKind = 1, 1, geometry.RTree
		}),
		mk("index 1/1 quadtree", "index", func(p *geojson.ParseOptions) { p.IndexChildren, p.IndexGeometry = 1, 1 }),
		mk("index 2/3 rtree", "index", func(p *geojson.ParseOptions) {
			p.IndexChildren, p.IndexGeometry, p.IndexGeometryKind = 2, 3, geometry.RTree
		}),
		mk("index 3/4 quadtree", "index", func(p *geojson.ParseOptions) { p.IndexChildren, p.IndexGeometry = 3, 4 }),
		mk("index 4/5 rtree", "index", func(p *geojson.ParseOptions) {
			p.IndexChildren, p.IndexGeometry, p.IndexGeometryKind = 4, 5, geometry.RTree
		}),
		mk("index 5/6 none-kind", "index", func(p *geojson.ParseOptions) {
			p.IndexChildren, p.IndexGeometry, p.IndexGeometryKind = 5, 6, geometry.None
		}),
		mk("simple points", "repr", func(p *geojson.ParseOptions) { p.AllowSimplePoints = true }),
		mk("rects", "repr", func(p *geojson.ParseOptions) { p.AllowRects = true }),
		mk("simple points + rects, index 1/1", "repr", func(p *geojson.ParseOptions) {
			p.AllowSimplePoints, p.AllowRects, p.IndexChildren, p.IndexGeometry = true, true, 1, 1
		}),
		// the same representation / index options with the Circle convention switched off: compared with each other
		mk("no circle type", "dbase", func(p *geojson.ParseOptions) { p.DisableCircleType = true }),
		mk("no circle type + simple points + rects", "drepr", func(p *geojson.ParseOptions) {
			p.DisableCircleType, p.AllowSimplePoints, p.AllowRects = true, true, true
		}),
		mk("no circle type + index 1/1 rtree", "dindex", func(p *geojson.ParseOptions) {
			p.DisableCircleType, p.IndexChildren, p.IndexGeometry, p.IndexGeometryKind = true, 1, 1, geometry.RTree
		}),
		mk("require valid", "rv", func(p *geojson.ParseOptions) { p.RequireValid = true }),
		mk("require valid + simple points + rects + rtree 1/1", "rv", func(p *geojson.ParseOptions) {
			p.RequireValid, p.AllowSimplePoints, p.AllowRects, p.IndexChildren, p.IndexGeometry, p.IndexGeometryKind = true, true, true, 1, 1, geometry.RTree
		}),
	}
}

func c08probes(t []float64) []geojson.Object {
	pt := func(a, b int) geometry.Point { return geometry.Point{X: t[a], Y: t[b]} }
	out := []geojson.Object{
		geojson.NewPoint(pt(1, 1)), geojson.NewSimplePoint(pt(2, 3)), geojson.NewPoint(pt(3, 3)),
		geojson.NewRect(geometry.Rect{Min: geometry.Point{X: -1000, Y: -1000}, Max: geometry.Point{X: 1000, Y: 1000}}),
		geojson.NewRect(geometry.Rect{Min: pt(1, 1), Max: pt(3, 3)}),
		geojson.NewLineString(geometry.NewLine([]geometry.Point{pt(1, 1), pt(4, 4)}, nil)),
		geojson.NewPolygon(geometry.NewPoly([]geometry.Point{pt(1, 1), pt(3, 1), pt(3, 3), pt(1, 1)}, nil, nil)),
		geojson.NewCircle(pt(1, 1), 500000, 16),
		geojson.NewMultiPoint([]geometry.Point{pt(1, 1), pt(4, 4)}),
		// polygons with holes around / beside the small documents (tokens 1..7 increase in every table): a triangular hole whose
		// bounding box reaches the rectangle documents but which does not, a square hole, two holes, a concave exterior,
		// a bent line, degenerate rectangles, and the same shapes inside a MultiPolygon / a collection / a Feature
		geojson.NewPolygon(geometry.NewPoly([]geometry.Point{pt(1, 1), pt(7, 1), pt(7, 7), pt(1, 7), pt(1, 1)},
			[][]geometry.Point{{pt(3, 6), pt(6, 6), pt(6, 3), pt(3, 6)}}, nil)),
		geojson.NewPolygon(geometry.NewPoly([]geometry.Point{pt(1, 1), pt(7, 1), pt(7, 7), pt(1, 7), pt(1, 1)},
			[][]geometry.Point{{pt(2, 2), pt(3, 2), pt(3, 3), pt(2, 3), pt(2, 2)}}, nil)),
		geojson.NewPolygon(geometry.NewPoly([]geometry.Point{pt(1, 1), pt(7, 1), pt(7, 7), pt(1, 7), pt(1, 1)},
			[][]geometry.Point{{pt(4, 5), pt(6, 5), pt(6, 6), pt(4, 5)}, {pt(4, 2), pt(5, 2), pt(5, 4), pt(4, 4), pt(4, 2)}}, nil)),
		geojson.NewPolygon(geometry.NewPoly([]geometry.Point{pt(1, 1), pt(7, 1), pt(7, 2), pt(2, 2), pt(2, 7), pt(1, 7), pt(1, 1)}, nil, nil)),
		geojson.NewLineString(geometry.NewLine([]geometry.Point{pt(1, 4), pt(3, 4), pt(3, 1)}, nil)),
		geojson.NewRect(geometry.Rect{Min: pt(1, 4), Max: pt(3, 4)}), geojson.NewRect(geometry.Rect{Min: pt(3, 1), Max: pt(3, 4)}),
		geojson.NewRect(geometry.Rect{Min: pt(2, 2), Max: pt(2, 2)}),
		geojson.NewMultiPolygon([]*geometry.Poly{
			geometry.NewPoly([]geometry.Point{pt(1, 1), pt(3, 1), pt(3, 4), pt(1, 4), pt(1, 1)}, [][]geometry.Point{{pt(2, 2), pt(3, 2), pt(2, 3), pt(2, 2)}}, nil),
			geometry.NewPoly([]geometry.Point{pt(4, 4), pt(6, 4), pt(5, 6), pt(4, 4)}, nil, nil)}),
		geojson.NewGeometryCollection([]geojson.Object{geojson.NewPoint(pt(2, 3)),
			geojson.NewPolygon(geometry.NewPoly([]geometry.Point{pt(1, 1), pt(5, 1), pt(5, 5), pt(1, 5), pt(1, 1)}, [][]geometry.Point{{pt(2, 2), pt(4, 2), pt(4, 4), pt(2, 2)}}, nil))}),
		geojson.NewFeature(geojson.NewPolygon(geometry.NewPoly([]geometry.Point{pt(1, 1), pt(7, 1), pt(7, 7), pt(1, 7), pt(1, 1)},
			[][]geometry.Point{{pt(3, 6), pt(6, 6), pt(6, 3), pt(3, 6)}}, nil)), ""),
		// probes in the range of the large documents (tokens 10..63)
		geojson.NewPoint(pt(16, 16)), geojson.NewPoint(pt(12, 10)), geojson.NewPoint(pt(25, 25)), geojson.NewSimplePoint(pt(26, 16)),
		geojson.NewRect(geometry.Rect{Min: pt(12, 12), Max: pt(18, 18)}),
		geojson.NewLineString(geometry.NewLine([]geometry.Point{pt(12, 11), pt(30, 11), pt(30, 14)}, nil)),
		geojson.NewPolygon(geometry.NewPoly([]geometry.Point{pt(15, 15), pt(40, 15), pt(40, 40), pt(15, 15)}, nil, nil)),
	}
	// one point probe on many individual segments of the large line / ring (a lost index entry shows only there)
	for c := 12; c < 48; c += 3 {
		out = append(out, geojson.NewPoint(pt(c, 16)), geojson.NewPoint(pt(c+1, 17)), geojson.NewSimplePoint(pt(c, 10)), geojson.NewPoint(pt(60, c)))
	}
	return out
}

// docProbes: circles of three steps placed so that a position of the document lies inside the disc but outside the
// circle's polygon approximation AND outside its rectangle (0.9 r south of the centre; the three-step polygon reaches
// only 0.5 r south).  The disc is what a Circle means, whatever the representation of the other operand.
func docProbes(o geojson.Object) (out []geojson.Object) {
	defer func() { recover() }()
	if o.Empty() {
		return nil
	}
	r := o.Rect()
	anchors := []geometry.Point{r.Min, r.Max, r.Center()}
	if c, ok := o.(geojson.Collection); ok {
		for i, ch := range c.Children() {
			if i < 3 && !ch.Empty() {
				anchors = append(anchors, ch.Center())
			}
		}
	}
	seen := map[geometry.Point]bool{}
	for _, a := range anchors {
		if seen[a] || !(a.X >= -170 && a.X <= 170 && a.Y >= -60 && a.Y <= 60) {
			continue
		}
		seen[a] = true
		out = append(out, geojson.NewCircle(geometry.Point{X: a.X, Y: a.Y + 0.5}, 61800, 3),
			geojson.NewCircle(geometry.Point{X: a.X, Y: a.Y + 0.009}, 1112, 3))
	}
	return out
}

func predicateAnswers(o geojson.Object, probes []geojson.Object) (s string) {
	defer func() {
		if r := recover(); r != nil {
			if rw, ok := r.(geometry.VerifRunaway); ok {
				s += "|runaway:" + rw.Site // the known non-terminating walk; operand addresses are not part of the observation
			} else {
				s += fmt.Sprint("|panic:", r)
			}
		}
	}()
	for _, p := range probes {
		s += fmt.Sprint(b2i(o.Intersects(p)), b2i(o.Contains(p)), b2i(o.Within(p)), b2i(p.Intersects(o)), b2i(p.Contains(o)), b2i(p.Within(o)), " ")
	}
	s += fmt.Sprint(b2i(o.Intersects(o)), b2i(o.Contains(o)))
	return s
}

func c08(args []string) error {
	if len(args) != 4 {
		return fmt.Errorf("usage: c08 docs outdir seed nrender")
	}
	rows, err := loadDocs(args[0])
	if err != nil {
		return err
	}
	seed, nrender := atoi(args[2]), atoi(args[3])
	ev, err := newEvents(args[1] + "/c08.events.ndjson")
	if err != nil {
		return err
	}
	defer ev.Close()
	runs := optRuns()
	var parses, acceptedDocs int64
	// rows are independent: sixteen workers, events emitted in row order
	results := make([][]obj, len(rows))
	var wg sync.WaitGroup
	sem := make(chan struct{}, 16)
	for ri := range rows {
		ri, r := ri, rows[ri]
		wg.Add(1)
		sem <- struct{}{}
		go func() {
			defer func() { <-sem; wg.Done() }()
			rng := rand.New(rand.NewSource(int64(seed)*1000003 + int64(ri)))
			emit := func(e obj) { results[ri] = append(results[ri], e) }
			for k := 0; k < nrender; k++ {
				ro := renderOpts{table: tokenTables[(k+r.b)%len(tokenTables)]}
				if k > 0 {
					ro.rng, ro.spaces = rng, rng.Intn(2) == 0
				}
				text := r.ast.Text(ro)
				gen := 1
			again:
				probes := c08probes(ro.table)
				if o0, err0 := geojson.Parse(text, nil); err0 == nil {
					probes = append(probes, docProbes(o0)...)
				}
				var recs []obj
				for _, run := range runs {
					po := run.po
					o, perr := geojson.Parse(text, &po)
					atomic.AddInt64(&parses, 1)
					rec := obj{"name": run.name, "class": run.class, "accepted": perr == nil, "json": "", "obs": "", "ans": "", "circle": false, "valid": false}
					if perr == nil {
						rec["json"] = o.JSON()
						rect := o.Rect()
						rec["obs"] = fmt.Sprint(rect, o.Empty(), o.Valid(), o.NumPoints())
						rec["ans"] = predicateAnswers(o, probes)
						if nullOrdinate(r.ast) { // a null ordinate is read as NaN: outside "numbers finite"; predicates on NaN are not compared
							rec["ans"] = "not compared: the document has a null ordinate"
						}
						_, isCircle := o.(*geojson.Circle)
						rec["circle"] = isCircle
						rec["valid"] = validStd(o) // RequireValid speaks about the nine standard types: a Circle feature is its Point, at any depth
					}
					recs = append(recs, rec)
				}
				if recs[0]["accepted"] == true {
					atomic.AddInt64(&acceptedDocs, 1)
				}
				canon, _ := recs[0]["json"].(string)
				// the trace specification only compares these texts for equality: a field on which all accepting runs agree is
				// logged as its digest (the texts are kept in full wherever two runs differ, for the report)
				for _, f := range []string{"json", "ans"} {
					distinct := map[string]bool{}
					for _, rec := range recs {
						if rec["accepted"] == true {
							distinct[rec[f].(string)] = true
						}
					}
					if len(distinct) == 1 {
						for _, rec := range recs {
							if rec["accepted"] == true {
								sum := sha1.Sum([]byte(rec[f].(string)))
								rec[f] = "sha1:" + hex.EncodeToString(sum[:8])
							}
						}
					}
				}
				emit(obj{"op": "opts", "doc": r.rawAST, "b": r.b, "text": clip(text, 300), "table": (k + r.b) % len(tokenTables), "runs": recs, "generation": gen})
				// second generation: the library's own serialisation of the document (what a server reloads) goes through the same
				// option product - a text that is byte for byte what the writers produce may take other paths through Parse
				if gen == 1 && k == 0 && recs[0]["accepted"] == true && canon != text && !nullOrdinate(r.ast) {
					text, gen = canon, 2
					goto again
				}
			}
		}()
	}
	wg.Wait()
	for _, es := range results {
		for _, e := range es {
			ev.Emit(e)
		}
	}
	printJSON(obj{"docs": len(rows), "parses": parses, "events": ev.N, "accepted_by_default_options": acceptedDocs, "option_sets": len(runs)})
	return nil
}

// nullOrdinate: does a "coordinates" member of the document (at any depth) contain a null?
func nullOrdinate(a AST) bool {
	var hasNull func(AST) bool
	hasNull = func(v AST) bool {
		if v.Tag == "z" {
			return true
		}
		for _, it := range v.Items {
			if hasNull(it) {
				return true
			}
		}
		return false
	}
	if a.Tag == "o" {
		for i, it := range a.Items {
			if a.Keys[i] == "coordinates" && hasNull(it) {
				return true
			}
			if nullOrdinate(it) {
				return true
			}
		}
	}
	if a.Tag == "a" {
		for _, it := range a.Items {
			if nullOrdinate(it) {
				return true
			}
		}
	}
	return false
}

// validStd: Valid() with every Circle (which stands for a Feature with a Point geometry) replaced by the validity of its centre
func validStd(o geojson.Object) bool {
	switch v := o.(type) {
	case *geojson.Circle:
		return v.Center().Valid()
	case *geojson.Feature:
		return validStd(v.Base())
	case geojson.Collection:
		for _, ch := range v.Children() {
			if !validStd(ch) {
				return false
			}
		}
		return true
	}
	return o.Valid()
}
