package main

import (
	"encoding/json"
	"fmt"
	"math/rand"
	"os"
	"sort"
	"sync"
	"sync/atomic"

	"github.com/tidwall/geojson"
	"github.com/tidwall/geojson/geometry"
)

// pairs <shapes.ndjson> <pairs.lines> <outdir> <seed> <ops> <nconf> <stride>
//
// Replays the Gen_Pairs rows (L1 answers for A x B) into the real predicates:
// geometry level and object level, both receivers, under lattice symmetries
// (D4), re-encodings, index configurations, orbit maps and inflation.
// ops is a subset of "int,con".  Mismatches (deduplicated by the actual
// operands) are written to <outdir>/pairs.events.ndjson.
func init() { commands["pairs"] = pairsCmd }

const latticeN = 3

var d4maps = []func(x, y int) (int, int){
	func(x, y int) (int, int) { return x, y },
	func(x, y int) (int, int) { return latticeN - x, y },
	func(x, y int) (int, int) { return x, latticeN - y },
	func(x, y int) (int, int) { return latticeN - x, latticeN - y },
	func(x, y int) (int, int) { return y, x },
	func(x, y int) (int, int) { return latticeN - y, x },
	func(x, y int) (int, int) { return y, latticeN - x },
	func(x, y int) (int, int) { return latticeN - y, latticeN - x },
}

func d4pts(g int, r [][]int) [][]int {
	out := make([][]int, len(r))
	for i, p := range r {
		x, y := d4maps[g](p[0], p[1])
		out[i] = []int{x, y}
	}
	return out
}

// D4 applies lattice symmetry g to the shape.
func (s Shape) D4(g int) Shape {
	o := Shape{Kind: s.Kind}
	switch s.Kind {
	case "pt":
		x, y := d4maps[g](s.P[0], s.P[1])
		o.P = []int{x, y}
	case "rect":
		ax, ay := d4maps[g](s.Min[0], s.Min[1])
		bx, by := d4maps[g](s.Max[0], s.Max[1])
		o.Min = []int{minI(ax, bx), minI(ay, by)}
		o.Max = []int{maxI(ax, bx), maxI(ay, by)}
	case "line":
		o.Pts = d4pts(g, s.Pts)
	case "poly":
		o.Ext = d4pts(g, s.Ext)
		for _, h := range s.Holes {
			o.Holes = append(o.Holes, d4pts(g, h))
		}
	}
	return o
}

func moveGeom(g geometry.Geometry, dx, dy float64) geometry.Geometry {
	switch v := g.(type) {
	case geometry.Point:
		return v.Move(dx, dy)
	case geometry.Rect:
		return v.Move(dx, dy)
	case *geometry.Line:
		return v.Move(dx, dy)
	case *geometry.Poly:
		return v.Move(dx, dy)
	}
	panic("kind")
}

func containsStr(s, sub string) bool {
	for i := 0; i+len(sub) <= len(s); i++ {
		if s[i:i+len(sub)] == sub {
			return true
		}
	}
	return false
}

func minI(a, b int) int {
	if a < b {
		return a
	}
	return b
}
func maxI(a, b int) int {
	if a > b {
		return a
	}
	return b
}

func geomIntersects(a, b geometry.Geometry) bool {
	switch v := b.(type) {
	case geometry.Point:
		return a.IntersectsPoint(v)
	case geometry.Rect:
		return a.IntersectsRect(v)
	case *geometry.Line:
		return a.IntersectsLine(v)
	case *geometry.Poly:
		return a.IntersectsPoly(v)
	}
	panic("kind")
}

func geomContains(a, b geometry.Geometry) bool {
	switch v := b.(type) {
	case geometry.Point:
		return a.ContainsPoint(v)
	case geometry.Rect:
		return a.ContainsRect(v)
	case *geometry.Line:
		return a.ContainsLine(v)
	case *geometry.Poly:
		return a.ContainsPoly(v)
	}
	panic("kind")
}

// guarded runs f; a panic or a runaway loop (the verif build's step bound) is reported as such.
func guarded(f func() bool) (res bool, out string) {
	defer func() {
		if r := recover(); r != nil {
			out = fmt.Sprint("panic: ", r)
		}
	}()
	return f(), "ok"
}

type pairCall struct {
	name string
	op   string // int | con
	fn   func(ga, gb geometry.Geometry, oa, ob geojson.Object) bool
}

var pairCalls = []pairCall{
	{"A.IntersectsX(B)", "int", func(ga, gb geometry.Geometry, _, _ geojson.Object) bool { return geomIntersects(ga, gb) }},
	{"B.IntersectsX(A)", "int", func(ga, gb geometry.Geometry, _, _ geojson.Object) bool { return geomIntersects(gb, ga) }},
	{"objA.Intersects(objB)", "int", func(_, _ geometry.Geometry, oa, ob geojson.Object) bool { return oa.Intersects(ob) }},
	{"objB.Intersects(objA)", "int", func(_, _ geometry.Geometry, oa, ob geojson.Object) bool { return ob.Intersects(oa) }},
	{"A.ContainsX(B)", "con", func(ga, gb geometry.Geometry, _, _ geojson.Object) bool { return geomContains(ga, gb) }},
	{"objA.Contains(objB)", "con", func(_, _ geometry.Geometry, oa, ob geojson.Object) bool { return oa.Contains(ob) }},
	{"objB.Within(objA)", "con", func(_, _ geometry.Geometry, oa, ob geojson.Object) bool { return ob.Within(oa) }},
	{"Feature(objA).Contains(Feature(objB))", "con", func(_, _ geometry.Geometry, oa, ob geojson.Object) bool {
		return geojson.NewFeature(oa, "").Contains(geojson.NewFeature(ob, `{"id":"b"}`))
	}},
	{"Feature(objB).Intersects(objA)", "int", func(_, _ geometry.Geometry, oa, ob geojson.Object) bool {
		return geojson.NewFeature(ob, "").Intersects(oa)
	}},
}

func randEnc(rng *rand.Rand) Enc {
	switch rng.Intn(8) {
	case 0:
		return Enc{}
	case 1:
		return Enc{Rot: 1 + rng.Intn(4)}
	case 2:
		return Enc{Rev: true}
	case 3:
		return Enc{Open: true}
	case 4:
		return Enc{Rot: 1 + rng.Intn(4), Rev: true}
	case 5:
		return Enc{Open: true, Rot: 1 + rng.Intn(4)}
	case 6:
		return Enc{Open: true, Rev: true, Rot: rng.Intn(3)}
	default:
		return Enc{Rot: 2}
	}
}

func pairsCmd(args []string) error {
	if len(args) != 7 {
		return fmt.Errorf("usage: pairs shapes pairs outdir seed ops nconf stride")
	}
	seed, nconf, stride := atoi(args[3]), atoi(args[5]), atoi(args[6])
	wantInt, wantCon := false, false
	for _, o := range splitComma(args[4]) {
		if o == "int" {
			wantInt = true
		}
		if o == "con" {
			wantCon = true
		}
	}
	var shapes []Shape
	if err := readLines(args[0], func(line []byte) error {
		var rec struct {
			S json.RawMessage
		}
		if err := json.Unmarshal(line, &rec); err != nil {
			return err
		}
		sh, err := parseShape(rec.S)
		if err != nil {
			return err
		}
		shapes = append(shapes, sh)
		return nil
	}); err != nil {
		return err
	}
	ev, err := newEvents(args[2] + "/pairs.events.ndjson")
	if err != nil {
		return err
	}
	defer ev.Close()
	maps := append(fixedMaps(latticeN<<6), seededMaps(rand.New(rand.NewSource(int64(seed))), latticeN<<6, 3)...)

	var evals, mism, pairsN, aborted int64
	var dedup sync.Map
	var emitted int64
	perStratum := 60 // witnesses kept per class of deviation (the explain pass evaluates the L2 transcription on each)
	if nconf >= 10 {
		perStratum = 400
	}
	type reservoir struct {
		n     int
		items []obj
		rng   *rand.Rand
	}
	reservoirs := map[string]*reservoir{}
	var resMu sync.Mutex
	var wg sync.WaitGroup
	rows := make(chan []byte, 64)
	for w := 0; w < 16; w++ {
		wg.Add(1)
		wrng := rand.New(rand.NewSource(int64(seed)*7919 + int64(w)))
		go func() {
			defer wg.Done()
			for line := range rows {
				var raw []json.RawMessage
				if err := json.Unmarshal(line, &raw); err != nil {
					panic(err)
				}
				var ai int
				var codes []int
				json.Unmarshal(raw[1], &ai)
				json.Unmarshal(raw[2], &codes)
				A0 := shapes[ai-1]
				for bi, code := range codes {
					B0 := shapes[bi]
					// sampling applies to the receivers with many known (and costly to explain) deviations only:
					// polygon receivers, and line receivers against lines / polygons
					costly := A0.Kind == "poly" || (A0.Kind == "line" && (B0.Kind == "line" || B0.Kind == "poly"))
					if costly && stride > 1 && (bi+ai+seed)%stride != 0 {
						continue
					}
					atomic.AddInt64(&pairsN, 1)
					expInt, expCon := code&1 == 1, code>>1 == 1
					type res struct {
						call   pairCall
						got    bool
						out    string
						exp    bool
						A, B   Shape
						g      int
						ea, eb Enc
						opts   geometry.IndexOptions
						mp     Map
						moved  bool
					}
					var bad []res
					// answers seen per op over all configurations and receivers (for C12: must be uniform)
					seen := map[string]map[string]bool{"int": {}, "con": {}}
					for c := 0; c < nconf; c++ {
						g := c % 8
						if c >= 8 {
							g = wrng.Intn(8)
						}
						var ea, eb Enc
						opts := indexConfigs[0]
						mp := Identity
						moved := false
						if c > 0 {
							ea, eb = randEnc(wrng), randEnc(wrng)
							opts = indexConfigs[wrng.Intn(3)]
							mp = maps[wrng.Intn(len(maps))]
							if A0.Kind != "line" && wrng.Intn(12) == 0 { // inflation: both operands subdivided (same scale), default thresholds (Line.Contains* never searches an index)
								sub := 3 + wrng.Intn(3)
								ea.Sub, eb.Sub = sub, sub
								opts = inflateIndex[wrng.Intn(len(inflateIndex))]
								mp = Identity
							}
							moved = wrng.Intn(6) == 0
						}
						A := A0.D4(g).Encode(ea)
						B := B0.D4(g).Encode(eb)
						var ga, gb geometry.Geometry
						if moved { // translation through Move: build at the identity, then move both by the map's offset
							ga, gb = moveGeom(A.Geom(Map{"s", mp.S, 0, 0}, &opts), mp.TX, mp.TY), moveGeom(B.Geom(Map{"s", mp.S, 0, 0}, &opts), mp.TX, mp.TY)
						} else {
							ga, gb = A.Geom(mp, &opts), B.Geom(mp, &opts)
						}
						var oa, ob geojson.Object
						for ci, call := range pairCalls {
							if (call.op == "int" && !wantInt) || (call.op == "con" && !wantCon) {
								continue
							}
							objLevel := ci >= 2 && ci != 4
							if objLevel && ((c+ci)%3 != 0 || moved) { // object-level calls on a third of the configurations
								continue
							}
							if oa == nil && objLevel {
								oa, ob = A.Object(mp, &opts, false), B.Object(mp, &opts, c%2 == 1)
							}
							exp := expInt
							if call.op == "con" {
								exp = expCon
							}
							atomic.AddInt64(&evals, 1)
							got, out := guarded(func() bool { return call.fn(ga, gb, oa, ob) })
							seen[call.op][fmt.Sprint(got, out)] = true
							if out == "ok" && got == exp {
								continue
							}
							atomic.AddInt64(&mism, 1)
							if out != "ok" {
								atomic.AddInt64(&aborted, 1)
							}
							bad = append(bad, res{call, got, out, exp, A, B, g, ea, eb, opts, mp, moved})
						}
					}
					for _, r := range bad {
						// receiver of the geometry-level call that decides (objX.Intersects(objY) dispatches to Y's geometry)
						recv := "A"
						switch r.call.name {
						case "B.IntersectsX(A)", "objA.Intersects(objB)":
							recv = "B"
						}
						aj, _ := json.Marshal(r.A.JSON())
						bj, _ := json.Marshal(r.B.JSON())
						uniform := len(seen[r.call.op]) == 1
						key := r.call.op + recv + string(aj) + string(bj) + r.out + fmt.Sprint(uniform)
						if _, dup := dedup.LoadOrStore(key, true); dup {
							continue
						}
						atomic.AddInt64(&emitted, 1)
						runaway := containsStr(r.out, "line.go:ContainsLine")
						e := obj{"op": r.call.op, "recv": recv, "A": json.RawMessage(aj), "B": json.RawMessage(bj), "got": r.got, "exp": r.exp, "out": r.out, "runaway": runaway,
							"A0": A0.D4(r.g).JSON(), "B0": B0.D4(r.g).JSON(), "uniform": uniform,
							"api": r.call.name, "d4": r.g, "encA": r.ea.String(), "encB": r.eb.String(), "index": fmt.Sprintf("%v/%d", r.opts.Kind, r.opts.MinPoints),
							"map": r.mp.Name, "moved": r.moved, "baseA": ai, "baseB": bi + 1, "src": "replay"}
						// stratified reservoir sampling: every class of deviation keeps up to perStratum witnesses
						degB := B0.Kind == "rect" && (B0.Min[0] == B0.Max[0] || B0.Min[1] == B0.Max[1])
						degA := A0.Kind == "rect" && (A0.Min[0] == A0.Max[0] || A0.Min[1] == A0.Max[1])
						stratum := fmt.Sprint(r.call.op, A0.Kind, B0.Kind, len(A0.Holes), len(B0.Holes), A0.NumPoints(), B0.NumPoints(), degA, degB,
							r.exp, r.got, r.out != "ok", uniform, r.call.name, r.ea.Sub > 0)
						resMu.Lock()
						rv := reservoirs[stratum]
						if rv == nil {
							rv = &reservoir{rng: rand.New(rand.NewSource(int64(seed) + int64(len(reservoirs))))}
							reservoirs[stratum] = rv
						}
						rv.n++
						if len(rv.items) < perStratum {
							rv.items = append(rv.items, e)
						} else if j := rv.rng.Intn(rv.n); j < perStratum {
							rv.items[j] = e
						}
						resMu.Unlock()
					}
				}
			}
		}()
	}
	if err := readLines(args[1], func(line []byte) error {
		rows <- append([]byte{}, line...)
		return nil
	}); err != nil {
		return err
	}
	close(rows)
	wg.Wait()
	strata := make([]string, 0, len(reservoirs))
	for k := range reservoirs {
		strata = append(strata, k)
	}
	sort.Strings(strata)
	for _, k := range strata {
		for _, e := range reservoirs[k].items {
			ev.Emit(e)
		}
	}
	printJSON(obj{"shapes": len(shapes), "pairs": pairsN, "evaluations": evals, "mismatching_calls": mism, "distinct_mismatches": emitted,
		"events": ev.N, "aborted_calls": aborted, "strata": len(strata), "per_stratum": perStratum, "event_cap_hit": int(emitted) > ev.N})
	_ = os.Stdout
	return nil
}

func init() {
	commands["pairone"] = func(args []string) error {
		var e struct {
			Op, Api, Recv string
			A, B          json.RawMessage
		}
		if err := json.Unmarshal([]byte(args[0]), &e); err != nil {
			return err
		}
		A, err := parseShape(e.A)
		if err != nil {
			return err
		}
		B, err := parseShape(e.B)
		if err != nil {
			return err
		}
		opts := indexConfigs[0]
		ga, gb := A.Geom(Identity, &opts), B.Geom(Identity, &opts)
		oa, ob := A.Object(Identity, &opts, false), B.Object(Identity, &opts, false)
		for _, c := range pairCalls {
			if c.name == e.Api {
				got, out := guarded(func() bool { return c.fn(ga, gb, oa, ob) })
				g := "false"
				if got {
					g = "true"
				}
				if out != "ok" {
					g = out
					if containsStr(out, "line.go:ContainsLine") {
						g = "runaway"
					}
				}
				printJSON(obj{"got": g, "api": c.name})
				return nil
			}
		}
		return fmt.Errorf("unknown api %q", e.Api)
	}
}
