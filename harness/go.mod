module verif/harness

go 1.15

require (
	github.com/tidwall/geojson v0.0.0
	github.com/tidwall/gjson v1.12.1
)

replace github.com/tidwall/geojson => /repo
