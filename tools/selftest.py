#!/usr/bin/env python3
"""selftest.py: "the binding binds" for the trace direction.

For every trace specification the most recent trace recorded from the real code (build/work/<id>/...) is cut to a prefix, a few events are
corrupted in one field each (an answer flipped, a hit removed, a reply changed, a flag cleared), and the trace specification must reject
exactly those events: every corrupted position is reported as MISMATCH.  A trace spec that only constrained the length of the trace, or an
invariant that never looks at the recorded reply, fails this test.  Run after the quick checks (it reuses their traces); nothing is written
outside build/selftest.  Exit 0 iff every corruption was reported by every trace spec tried."""
import copy, json, os, sys
sys.path.insert(0, os.path.dirname(os.path.abspath(__file__)))
import vlib

OUT = os.path.join(vlib.BUILD, "selftest")
C13_CFG = "CONSTANT NP = 720\nSPECIFICATION TSpec\nINVARIANT Judge\nCHECK_DEADLOCK FALSE\n"


def flip(e, k):
    e[k] = not e[k]
    return True


def c_got(e):
    if "got" not in e:
        return False
    g = e["got"]
    if isinstance(g, bool):
        e["got"] = not g
    elif isinstance(g, int):
        e["got"] = g + 1
    elif isinstance(g, list) and g and all(x in (0, 1) for x in g):
        e["got"] = [1 - g[0]] + g[1:]
    elif isinstance(g, list) and g and all(isinstance(x, (int, float)) for x in g):
        e["got"] = [g[0] + 1] + g[1:]
    else:
        return False
    return True


def c_c04(e):
    if e.get("op") != "search" or not e.get("hits"):
        return False
    e["hits"] = e["hits"][1:]          # one reported segment lost
    return True


def c_c05(e):
    if e.get("op") == "parse" and "obj" in e and e.get("out") == "ok":
        e["obj"] = bool(e["err"])      # object and error together, or neither
        return True
    if e.get("out") == "ok":           # (a different ANSWER of a terminating walk is model drift by design, an abnormal outcome is not)
        e["out"] = "panic"
        e["msg"] = "corrupted by selftest"
        return True
    return False


def c_c06(e):
    return e.get("op") == "rt" and flip(e, "fix")


def c_c17(e):
    return "same4" in e and flip(e, "same4")


def c_c08(e):
    if e.get("op") != "opts" or len(e.get("runs", [])) < 2 or not e["runs"][1].get("accepted") or not e["runs"][0].get("accepted"):
        return False
    e["runs"][1]["json"] = (e["runs"][1].get("json") or "") + " "
    return True


def c_c09(e):
    if e.get("op") == "law":
        return flip(e, "BiA")
    if e.get("op") == "equiv":
        e["r2"] = e["r2"] + "x"
        return True
    return False


def c_c13(e):
    if e.get("op") in ("pt", "frac", "cc"):
        return flip(e, "got")
    if e.get("op") == "ser":
        return flip(e, "sameradius")
    return False


def c_c16(e):
    if e.get("op") == "call":
        return flip(e, "unchanged")
    return False


CASES = [
    # (id, trace spec, recorded trace, cfg, corruption, events refer to earlier ones -> keep a prefix instead of a sample)
    ("C19", "Trace_C19", "C19/c19.events.ndjson", None, c_got),
    ("C18", "Trace_C18", "C18/c18.events.ndjson", None, c_got),
    ("C01", "Trace_C01", "C01/c01.events.ndjson", None, c_got),
    ("C11", "Trace_C11", "C11/c11.events.ndjson", None, c_got),
    ("C04", "Trace_C04", "C04/c04.events.ndjson", None, c_c04),
    ("C05", "Trace_C05", "C05/c05.events.ndjson", None, c_c05),
    ("C06", "Trace_C06", "C06/c06.events.ndjson", None, c_c06),
    ("C17", "Trace_C17", "C17/c17.events.ndjson", None, c_c17),
    ("C08", "Trace_C08", "C08/c08.events.ndjson", None, c_c08),
    ("C09", "Trace_C09", "C09/laws.ndjson", None, c_c09),
    ("C13", "Trace_C13", "C13/c13.events.ndjson", C13_CFG, c_c13),
    ("C16", "Trace_C16", "C16/c16.digest.ndjson", None, c_c16),
]


def main():
    os.makedirs(OUT, exist_ok=True)
    ok = True
    rows = []
    for pid, module, rel, cfg, corrupt in CASES:
        src = os.path.join(vlib.BUILD, "work", rel)
        if not os.path.exists(src) or os.path.getsize(src) == 0:
            rows.append((pid, module, "no recorded trace (run ./check %s quick first)" % pid))
            ok = False
            continue
        prefix = pid in ("C04", "C16")
        lines = open(src).readlines()
        if prefix:
            lines = lines[:3000 if pid == "C04" else 400]
        else:
            step = max(1, len(lines) // 400)
            lines = lines[::step][:400]
        events = [json.loads(l) for l in lines]
        # the unmodified prefix first: its own mismatches (known findings) are not counted against the corruptions
        base = os.path.join(OUT, pid + ".base.ndjson")
        with open(base, "w") as f:
            for e in events:
                f.write(json.dumps(e) + "\n")
        _, m0, _ = vlib.judge_trace(module, base, cfg=cfg)
        before = {m[1] for m in m0}
        corrupted = []
        evs = copy.deepcopy(events)
        want = 12
        stride = max(1, len(evs) // 40)
        for i in range(7, len(evs), stride):
            if len(corrupted) >= want:
                break
            if (i + 1) in before:
                continue
            if corrupt(evs[i]):
                corrupted.append(i + 1)
        bad = os.path.join(OUT, pid + ".corrupted.ndjson")
        with open(bad, "w") as f:
            for e in evs:
                f.write(json.dumps(e) + "\n")
        _, m1, _ = vlib.judge_trace(module, bad, cfg=cfg)
        after = {m[1] for m in m1}
        missed = [p for p in corrupted if p not in after]
        extra = sorted(after - before - set(corrupted))
        verdict = "all %d corruptions reported" % len(corrupted) if corrupted and not missed else (
            "NO EVENT COULD BE CORRUPTED" if not corrupted else "NOT REPORTED at positions %s" % missed)
        if not corrupted or missed:
            ok = False
        rows.append((pid, module, "%s (prefix of %d events, %d mismatches before, %d other new ones)" % (verdict, len(events), len(before), len(extra))))
    for r in rows:
        print("%-4s %-10s %s" % r)
    print("SELFTEST", "PASS" if ok else "FAIL")
    return 0 if ok else 1


if __name__ == "__main__":
    sys.exit(main())
