"""The session machine (spec/Session.tla): exhaustive run of the machine itself (MC), behaviours chosen by
`tlc -simulate` from GenSpec, re-validated and annotated with the expected observations by Trace_Session, and stepped
through the real library by the Go harness (`harness session`).  Shared by C09 and C10."""
import glob, json, os, re, resource, shutil, subprocess
import vlib, universe

KEYS = 4
CONSTS = "CONSTANTS Keys = {%s}  LeafSet = {%s}  MaxParts = %d  MaxNest = %d\n"
MC_CFG = (CONSTS % ("1,2", "1, 6, 11, 16", 2, 1)) + \
    "SPECIFICATION Spec\nINVARIANTS TypeOK SessionLaws\nPROPERTIES ReparseKeepsMeaning WrapTransparent\nVIEW View\nCHECK_DEADLOCK FALSE\n"


def gen_consts(nleaves):
    return CONSTS % (",".join(str(k) for k in range(1, KEYS + 1)), ",".join(str(i) for i in range(1, nleaves + 1)), 6, 3)


def mc():
    """T12: the machine's own theorems, exhaustively for 2 keys / 4 leaves / terms of <= 2 parts (cached per spec hash)."""
    path, leaves = universe.leaves_file()
    return vlib.cached_tlc("session-mc", "Session", MC_CFG, workers=8, timeout=1500, env={"LEAVES": path}, want_lines=False)


def behaviours(seed, num, depth):
    """-> (path of the annotated step lines, meta).  Cached per (spec, seed, num, depth)."""
    lpath, leaves = universe.leaves_file()
    consts = gen_consts(len(leaves))
    key = vlib.sha(vlib.spec_hash("Trace_Session"), consts, str(seed), str(num), str(depth), open(lpath).read())
    d = os.path.join(vlib.BUILD, "cases", "session-" + key)
    steps, meta = os.path.join(d, "steps.lines"), os.path.join(d, "meta.json")
    if os.path.exists(steps) and os.path.exists(meta):
        m = json.load(open(meta))
        m["cached"] = True
        return steps, lpath, m
    os.makedirs(d, exist_ok=True)
    trdir = os.path.join(d, "tr")
    shutil.rmtree(trdir, ignore_errors=True)
    os.makedirs(trdir)
    # pass 1: TLC chooses behaviours of GenSpec
    r = vlib.run_tlc("Session", consts + "SPECIFICATION GenSpec\nINVARIANT TypeOK\nCHECK_DEADLOCK FALSE\n", workers=1, timeout=900,
                     simulate="file=%s/t,num=%d" % (trdir, num), depth=depth, seed=seed, env={"LEAVES": lpath}, want_lines=False)
    if not r.ok:
        raise vlib.Inconclusive("session generator failed: %s %s" % (r.violated, r.log))
    actions = os.path.join(d, "actions.ndjson")
    nb = nact = 0
    with open(actions, "w") as out:
        for f in sorted(glob.glob(os.path.join(trdir, "t_*"))):
            text = open(f).read()
            acts = re.findall(r"/\\ last = (.*?)\n(?=/\\ |\n)", text, re.S)
            out.write('["Reset"]\n')
            nb += 1
            for a in acts:
                v = json.loads(vlib.tla2json(" ".join(a.split())))
                if v[0] == "Init":
                    continue
                out.write(json.dumps(v[:4] if v[0] == "Reparse" else v) + "\n")   # the outcome of a Reparse is the specification's to say
                nact += 1
    shutil.rmtree(trdir, ignore_errors=True)
    if nb == 0 or nact == 0:
        raise vlib.Inconclusive("session generator wrote no behaviours")
    # pass 2: the trace specification consumes every chosen action with the action of Session it names and prints what
    # the library must show after each step
    r2 = vlib.run_tlc("Trace_Session", consts + "SPECIFICATION TSpec\nINVARIANT Emit\nPOSTCONDITION Consumed\nCHECK_DEADLOCK FALSE\n",
                      workers=1, timeout=1500, env={"LEAVES": lpath, "TRACE": actions})
    if not r2.ok or r2.violated:
        raise vlib.Inconclusive("Trace_Session did not consume the generated behaviours: %s\n%s" % (r2.violated, r2.log))
    if len(r2.lines) != nact or r2.distinct != nact + nb + 1:
        raise vlib.Inconclusive("Trace_Session: %d step lines / %d states for %d actions in %d behaviours" % (len(r2.lines), r2.distinct, nact, nb))
    with open(steps + ".tmp", "w") as f:
        for l in r2.lines:
            f.write(vlib.tla2json(json.loads(l)) + "\n")
    os.replace(steps + ".tmp", steps)
    m = {"behaviours": nb, "actions": nact, "generator_states": r.generated, "trace_states": r2.distinct,
         "wall_s": round(r.wall + r2.wall, 1), "seed": seed, "depth": depth, "cached": False}
    json.dump(m, open(meta, "w"))
    return steps, lpath, m


QUICK = (400, 24)
THOROUGH = (2000, 32)


def warm():
    """setup: the behaviours of the default seed of the quick tier"""
    behaviours(1 % 1000 + 1, *QUICK)


def replay(pid, tier, seed):
    """-> (events, summary, meta, mc_meta)"""
    _, mcm = mc()
    num, depth = QUICK if tier != "thorough" else THOROUGH
    steps, lpath, meta = behaviours(int(seed) % 1000 + 1, num, depth)
    out = os.path.join(vlib.BUILD, "work", pid)
    os.makedirs(out, exist_ok=True)
    exe = os.path.join(vlib.BUILD, "bin", "harness")
    def limit():   # a change that makes a writer run away must not take the machine's memory with it
        resource.setrlimit(resource.RLIMIT_AS, (12 << 30, 12 << 30))
    p = subprocess.run(["timeout", "-k", "10", "900", exe, "session", steps, lpath, out], cwd=vlib.ROOT, env=vlib.GOENV, capture_output=True, text=True, preexec_fn=limit)
    if p.returncode != 0:
        # a fatal error of the Go runtime (dead lock, stack overflow, concurrent map access) inside a call into the library
        # is the library's doing: the sessions are plain sequences of public calls.  Anything else is the harness's problem.
        m = re.search(r"fatal error: [^\n]*", p.stderr)
        lib = re.search(r"^github\.com/tidwall/geojson[^\n]*", p.stderr, re.M)
        if m and lib and p.stderr.find(lib.group(0)) < (p.stderr.find("\nmain.") if "\nmain." in p.stderr else len(p.stderr)):
            ev = {"op": "session", "what": "fatal", "step": -1, "history": ["(see stderr excerpt)"], "got": m.group(0) + " in " + lib.group(0)[:200],
                  "exp": "every call returns", "stderr": p.stderr[:3000], "steps_file": steps}
            return [ev], {"steps": meta["actions"], "fatal": m.group(0)}, meta, mcm
        raise vlib.Inconclusive("harness session failed rc=%d:\n%s" % (p.returncode, p.stderr[-3000:]))
    summ = json.loads(p.stdout)
    events = [json.loads(l) for l in open(os.path.join(out, "session.events.ndjson"))]
    if summ["steps"] != meta["actions"]:
        raise vlib.Inconclusive("session replay stepped %d of %d actions" % (summ["steps"], meta["actions"]))
    return events, summ, meta, mcm


def is_coll_tree(t):
    while t and t[0] == "Feature":
        t = t[1]
    return bool(t) and t[0] in ("MultiPoint", "MultiLineString", "MultiPolygon", "GeometryCollection", "FeatureCollection")


def evidence(summ, meta, mcm, events):
    return {
        "rule": "spec/Session.tla: a store of 4 keys driven by SetLeaf / SetEmpty (constructors), Wrap (NewFeature around a stored object, 3 member "
                "texts), Collect (NewGeometryCollection / NewFeatureCollection / NewMulti* over stored objects, repetitions allowed), Reparse "
                "(Parse(JSON(stored), one of 6 option sets); rejected when the object holds a part Parse does not accept) and Del. T12: TLC checks "
                "the machine exhaustively for 2 keys, 4 leaves and terms of <= 2 parts (TypeOK, the C09 laws between any two stored objects, "
                "ReparseKeepsMeaning, WrapTransparent). Behaviours chosen by tlc -simulate are re-validated by Trace_Session (every chosen action "
                "consumed by the action of Session it names) and stepped through the real library; after EVERY step the whole store is projected "
                "(tree with the concrete Go type of every leaf: Point/SimplePoint, Polygon/Rect) and compared with the specification's, with Empty, "
                "Rect, NumPoints of every stored object, Intersects / Contains / Within of every ordered pair of stored objects (L1 = ObjectsPred) "
                "and the child search of every stored collection (7 rectangles x 3 stop positions)",
        "exhaustive_machine_run": {"distinct_states": mcm["distinct"], "generated": mcm["generated"]},
        "behaviours": meta["behaviours"], "actions": meta["actions"], "depth": meta["depth"], "generator_seed": meta["seed"],
        "replay": summ, "disagreements": len(events),
    }
