#!/usr/bin/env python3
"""rebase_seeded.py <base-commit-or-worktree-HEAD>: seeded patches that no longer apply to /repo's HEAD (because a later fix touched the same
lines) are re-expressed against HEAD: three-way apply in a scratch worktree, conflicted files taken from the change's side, re-diffed, and
re-confirmed with tools/confirm_mutant.py (suite passes with the change, the demonstration fails with it and passes without)."""
import glob, json, os, shutil, subprocess, sys, tempfile

def sh(cmd, cwd):
    p = subprocess.run(cmd, cwd=cwd, shell=True, capture_output=True, text=True)
    return p.returncode, p.stdout + p.stderr

def main():
    head = subprocess.check_output("git -C /repo rev-parse HEAD", shell=True, text=True).strip()
    for d in sorted(glob.glob("/verif/seeded/C*/*")):
        patch = os.path.join(d, "patch.diff")
        wt = tempfile.mkdtemp(prefix="rb-", dir="/tmp"); os.rmdir(wt)
        try:
            sh("git -C /repo worktree add -q --detach %s %s" % (wt, head), "/")
            rc, _ = sh("git apply --check %s" % patch, wt)
            if rc == 0:
                continue
            rc, out = sh("git apply --3way %s" % patch, wt)
            rc2, st = sh("git status --porcelain", wt)
            conflicted = [l[3:] for l in st.splitlines() if l[:2] in ("UU", "AA", "U ", " U")]
            for f in conflicted:
                sh("git checkout --theirs -- %s" % f, wt)
            sh("git reset -q", wt)
            rc, diff = sh("git diff", wt)
            if not diff.strip():
                print("FAILED  %s: nothing left after the three-way apply" % d); continue
            src = tempfile.mkdtemp(prefix="rbsrc-", dir="/tmp")
            open(os.path.join(src, "patch.diff"), "w").write(diff)
            for f in os.listdir(d):
                if f.endswith("_test.go") or f == "meta.json":
                    shutil.copy(os.path.join(d, f), src)
            meta = json.load(open(os.path.join(src, "meta.json")))
            meta["rebased_note"] = "patch re-expressed against %s (three-way; conflicted files taken from the change's side)" % head[:7]
            meta["ran"] = meta.pop("author_ran", None)
            json.dump(meta, open(os.path.join(src, "meta.json"), "w"), indent=1)
            pid, name = d.split("/")[-2], d.split("/")[-1]
            env = dict(os.environ, CONFIRM_FLAGS="-race" if pid == "C16" else "")
            p = subprocess.run(["python3", "/verif/tools/confirm_mutant.py", src, pid, name], capture_output=True, text=True, env=env)
            print(p.stdout.strip().splitlines()[-1][:160] if p.stdout.strip() else "FAILED %s %s" % (d, p.stderr[-300:]))
            shutil.rmtree(src, ignore_errors=True)
        finally:
            subprocess.run("git -C /repo worktree remove --force %s" % wt, shell=True, capture_output=True)
            shutil.rmtree(wt, ignore_errors=True)
    subprocess.run("git -C /repo worktree prune", shell=True)

if __name__ == "__main__":
    main()
