"""The C02/C03/C12 universe: phase 1 (Gen_Shapes per stratum), selection of class
representatives under rotation/direction/D4 (selection only - no oracle), phase 2
(Gen_Pairs)."""
import json, os, hashlib
import vlib

N = 3
STRATA = {"quick": [("pt", 1), ("rect", 2), ("line", 3), ("ring", 5), ("holed", 4), ("holed2", 3)],
          "thorough": [("pt", 1), ("rect", 2), ("line", 3), ("ring", 6), ("holed", 4), ("holed2", 4)]}
CFG1 = 'CONSTANTS N = %d  K = %d  Mode = "%s"\nSPECIFICATION Spec\nINVARIANT Emit\nCHECK_DEADLOCK FALSE\n'
CFG2 = 'SPECIFICATION Spec\nINVARIANTS Laws Emit\nCHECK_DEADLOCK FALSE\n'

D4 = [lambda x, y: (x, y), lambda x, y: (N - x, y), lambda x, y: (x, N - y), lambda x, y: (N - x, N - y),
      lambda x, y: (y, x), lambda x, y: (N - y, x), lambda x, y: (y, N - x), lambda x, y: (N - y, N - x)]


def canon_ring(r):
    """closed ring with closing vertex -> canonical start (lexicographically smallest vertex) and direction."""
    v = [tuple(p) for p in r[:-1]] if len(r) > 1 and r[0] == r[-1] else [tuple(p) for p in r]
    n = len(v)
    best = None
    for d in (1, -1):
        w = v if d == 1 else v[::-1]
        for k in range(n):
            c = tuple(w[k:] + w[:k])
            if best is None or c < best:
                best = c
    return best


def canon_line(pts):
    a = tuple(tuple(p) for p in pts)
    return min(a, a[::-1])


def key(shape, g):
    k = shape[0]
    m = lambda p: g(p[0], p[1])
    if k == "pt":
        return (k, m(shape[1]))
    if k == "rect":
        a, b = m(shape[1]), m(shape[2])
        return (k, (min(a[0], b[0]), min(a[1], b[1])), (max(a[0], b[0]), max(a[1], b[1])))
    if k == "line":
        return (k, canon_line([m(p) for p in shape[1]]))
    return (k, canon_ring([m(p) for p in shape[1]]), tuple(canon_ring([m(p) for p in h]) for h in shape[2]))   # hole order is part of the encoding


def build(tier="quick"):
    """Returns (shapes list, pair rows path, metas)."""
    metas = []
    shapes = []
    for mode, k in STRATA[tier]:
        data, meta = vlib.cached_tlc("shapes-%s-%d" % (mode, k), "Gen_Shapes", CFG1 % (N, k, mode), workers=8, timeout=1800)
        metas.append(meta)
        for line in open(data):
            v = json.loads(line)
            shapes.append({"s": v[1], "m": v[2]})
    # encoding classes (rotation / direction): keep one shape per class for B; D4 classes: representatives for A
    seen_enc, out = set(), []
    for sh in shapes:
        ke = key(sh["s"], D4[0])
        if ke in seen_enc:
            continue
        seen_enc.add(ke)
        kd = min(key(sh["s"], g) for g in D4)
        sh["a"] = 1 if kd == ke else 0
        out.append(sh)
    d = os.path.join(vlib.BUILD, "universe")
    os.makedirs(d, exist_ok=True)
    text = "".join(json.dumps(s, separators=(",", ":")) + "\n" for s in out)
    h = hashlib.sha256(text.encode()).hexdigest()[:16]
    path = os.path.join(d, "shapes-%s.ndjson" % h)
    if not os.path.exists(path):
        open(path, "w").write(text)
    pairs, pmeta = vlib.cached_tlc("pairs-" + h, "Gen_Pairs", CFG2, workers=8, timeout=3000,
                                   env={"SHAPES": path})
    metas.append(pmeta)
    return out, path, pairs, metas


CFG_G1 = 'CONSTANTS N = %d\nSPECIFICATION Spec\nINVARIANT Emit\nCHECK_DEADLOCK FALSE\n'
CFG_G2 = 'CONSTANTS CheckMasks = FALSE  Stride = 1  Phase = 0\nSPECIFICATION Spec\nINVARIANTS Laws Emit\nCHECK_DEADLOCK FALSE\n'


def build_general(tier="quick"):
    """The general-slope universe: lines, triangles and quadrilaterals with at least one edge of another slope than 0, 1, -1, infinity
    (Gen_ShapesG), together with points, rectangles, rings and holed polygons of the octilinear universe; answers by PlanarGeneral
    (Gen_PairsG).  Selection is by position (no seed): the universe is the same in every run."""
    octi, _, _, ometas = build("quick")
    gdata, gmeta = vlib.cached_tlc("shapesG-%d" % N, "Gen_ShapesG", CFG_G1 % N, workers=8, timeout=900)
    gen = [json.loads(l)[1] for l in open(gdata)]
    dense = tier == "thorough"
    pick = []
    cnt = {}
    for sh in gen:
        k = (sh[0], len(sh[1]))
        cnt[k] = cnt.get(k, 0) + 1
        stride = {("line", 2): 1, ("line", 3): 2 if dense else 4, ("poly", 4): 1, ("poly", 5): 2 if dense else 4}[k]
        if cnt[k] % stride == 0:
            pick.append({"s": sh, "g": 1})
    ocnt = {}
    for sh in octi:
        s = sh["s"]
        k = s[0] if s[0] != "poly" else ("holed" if s[2] else "ring")
        ocnt[k] = ocnt.get(k, 0) + 1
        stride = {"pt": 1, "rect": 3, "line": 40, "ring": 30, "holed": 4 if dense else 8}[k]
        if ocnt[k] % stride == 0:
            pick.append({"s": s, "g": 0})
    # receivers: one general shape per D4 class (every second class in the quick tier), and the octilinear extras of kinds rect / holed
    seen, nrep = set(), 0
    for sh in pick:
        ke = key(sh["s"], D4[0])
        kd = min(key(sh["s"], g) for g in D4)
        sh["a"] = 0
        if sh["g"] == 1 and kd == ke and kd not in seen:
            seen.add(kd)
            nrep += 1
            sh["a"] = 1 if (dense or nrep % 2 == 0) else 0
        elif sh["g"] == 0 and sh["s"][0] in ("rect", "poly") and sh["s"][0] != "pt":
            sh["a"] = 1 if (sh["s"][0] == "rect" or sh["s"][2]) else 0
    d = os.path.join(vlib.BUILD, "universe")
    os.makedirs(d, exist_ok=True)
    text = "".join(json.dumps({"s": s["s"], "a": s["a"]}, separators=(",", ":")) + "\n" for s in pick)
    h = hashlib.sha256(text.encode()).hexdigest()[:16]
    path = os.path.join(d, "shapesG-%s.ndjson" % h)
    if not os.path.exists(path):
        open(path, "w").write(text)
    pairs, pmeta = vlib.cached_tlc("pairsG-" + h, "Gen_PairsG", CFG_G2, workers=16, timeout=3000, env={"SHAPES": path})
    return pick, path, pairs, [gmeta, pmeta]


CFG_H1 = 'SPECIFICATION Spec\nINVARIANT Emit\nCHECK_DEADLOCK FALSE\n'


def build_holes(tier="quick"):
    """The structured-holes universe (Gen_ShapesH): a square with every ordered pair / triple of disjoint holes from a catalogue on the
    10x10 lattice as receivers, against points, segments, boxes and plugs; answers by PlanarGeneral (Gen_PairsG)."""
    hdata, hmeta = vlib.cached_tlc("shapesH", "Gen_ShapesH", CFG_H1, workers=1, timeout=900)
    pick = []
    n3 = 0
    for l in open(hdata):
        sh = json.loads(l)[1]
        concave_ext = sh[0] == "poly" and len(sh[1]) > 5
        big_hole = sh[0] == "poly" and len(sh[2]) == 1 and len(sh[2][0]) > 7
        a = 1 if (sh[0] == "poly" and (len(sh[2]) == 2 or concave_ext or big_hole)) or (sh[0] == "rect" and sh[1] == [1, 1] and sh[2] == [8, 8]) else 0
        if sh[0] == "poly" and len(sh[2]) == 3:   # every three-hole polygon in the thorough tier, every third one otherwise (by position)
            n3 += 1
            a = 1 if (tier == "thorough" or n3 % 3 == 0) else 0
        pick.append({"s": sh, "a": a})
    d = os.path.join(vlib.BUILD, "universe")
    os.makedirs(d, exist_ok=True)
    text = "".join(json.dumps(s, separators=(",", ":")) + "\n" for s in pick)
    h = hashlib.sha256(text.encode()).hexdigest()[:16]
    path = os.path.join(d, "shapesH-%s.ndjson" % h)
    if not os.path.exists(path):
        open(path, "w").write(text)
    pairs, pmeta = vlib.cached_tlc("pairsH-" + h, "Gen_PairsG", CFG_G2, workers=16, timeout=3000, env={"SHAPES": path})
    return pick, path, pairs, [hmeta, pmeta]


if __name__ == "__main__":
    import time
    t = time.time()
    out, path, pairs, metas = build()
    print(len(out), sum(s["a"] for s in out), path, pairs, [(m["name"], m["distinct"], m["wall_s"]) for m in metas], time.time() - t)


def leaves_file():
    """The discriminating leaf set of C09/C10: shapes on which the leaf predicates of the pinned code are exact
    (points, two-point lines, rectangles, convex polygons without holes), taken with their masks from the pair universe."""
    shapes, spath, pairs, metas = build()
    want = [
        ("Point", ["pt", [0, 0]]), ("Point", ["pt", [1, 1]]), ("SimplePoint", ["pt", [2, 2]]), ("Point", ["pt", [3, 0]]), ("Point", ["pt", [1, 0]]),
        ("LineString", ["line", [[0, 0], [3, 3]]]), ("LineString", ["line", [[0, 0], [2, 0]]]), ("LineString", ["line", [[1, 1], [2, 2]]]),
        ("LineString", ["line", [[3, 0], [3, 3]]]), ("LineString", ["line", [[0, 2], [2, 2]]]),
        ("Rect", ["rect", [0, 0], [3, 3]]), ("Rect", ["rect", [0, 0], [1, 1]]), ("Rect", ["rect", [1, 1], [2, 2]]), ("Rect", ["rect", [2, 0], [3, 3]]),
        ("Polygon", ["poly", [[0, 0], [3, 0], [0, 3], [0, 0]], []]), ("Polygon", ["poly", [[1, 1], [2, 1], [2, 2], [1, 2], [1, 1]], []]),
        ("Polygon", ["poly", [[0, 1], [1, 0], [2, 1], [1, 2], [0, 1]], []]), ("Polygon", ["poly", [[0, 0], [3, 0], [3, 3], [0, 3], [0, 0]], []]),
        ("Polygon", ["poly", [[0, 3], [3, 0], [3, 3], [0, 3]], []]),
    ]
    bykey = {}
    for sh in shapes:
        bykey[key(sh["s"], D4[0])] = sh
    out = []
    for kind, s in want:
        sh = bykey.get(key(s, D4[0]))
        if sh is None:
            raise vlib.Inconclusive("leaf %s not in the pair universe" % (s,))
        pts = [s[1]] if s[0] == "pt" else ([s[1], s[2]] if s[0] == "rect" else (s[1] if s[0] == "line" else s[1]))
        xs, ys = [p[0] for p in pts], [p[1] for p in pts]
        out.append({"k": kind, "s": s, "m": sh["m"], "r": [min(xs), min(ys), max(xs), max(ys)]})
    d = os.path.join(vlib.BUILD, "universe")
    text = "".join(json.dumps(s, separators=(",", ":")) + "\n" for s in out)
    path = os.path.join(d, "leaves-%s.ndjson" % hashlib.sha256(text.encode()).hexdigest()[:16])
    if not os.path.exists(path):
        open(path, "w").write(text)
    return path, out
