#!/bin/bash
# try_mutant.sh <patch.diff> <tier> <id> [<id>...] : apply a seeded change to /repo, run checks, undo.
patch=$(readlink -f $1); tier=$2; shift 2
cd /repo || exit 2
if ! git diff --quiet; then echo "repo dirty"; exit 2; fi
if ! git apply "$patch" 2>/dev/null; then
  if ! git apply --3way "$patch" 2>/dev/null; then echo "PATCH DOES NOT APPLY: $patch"; git reset -q; git checkout -- . ; exit 3; fi
  git reset -q
fi
export GOFLAGS=-mod=mod GOPROXY=off GOSUMDB=off GOTOOLCHAIN=local
if ! go build ./... ; then echo "MUTANT DOES NOT BUILD"; git reset -q; git checkout -- .; exit 3; fi
cd /verif
for id in "$@"; do
  out=$(./check $id $tier 2>/dev/null)
  rc=$?
  echo "== $id rc=$rc $(echo "$out" | grep -c '^VIOLATION') violations; $(echo "$out" | grep -m1 '^VIOLATION\|^INCONCLUSIVE')"
done
git -C /repo reset -q; git -C /repo checkout -- .
git -C /repo status --short
