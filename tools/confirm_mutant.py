#!/usr/bin/env python3
"""confirm_mutant.py <srcdir> <property-id> <name>

Independently confirms a seeded change produced by a sub-agent, in a scratch
worktree of /repo's HEAD (outside /repo and /verif), and stores it under
/verif/seeded/<id>/<name>/ :
  1. the patch applies (3-way if needed) and is re-diffed against HEAD,
  2. the library builds and the full existing test suite passes with it,
  3. the demonstration FAILS with the change,
  4. the demonstration PASSES without it.
The scratch worktree is removed afterwards."""
import json, os, re, shutil, subprocess, sys, tempfile

ENV = dict(os.environ, GOFLAGS="-mod=mod", GOPROXY="off", GOSUMDB="off", GOTOOLCHAIN="local")


def sh(cmd, cwd, timeout=600):
    p = subprocess.run(cmd, cwd=cwd, env=ENV, shell=True, capture_output=True, text=True, timeout=timeout)
    return p.returncode, (p.stdout + p.stderr)


def main():
    src, pid, name = sys.argv[1], sys.argv[2], sys.argv[3]
    wt = tempfile.mkdtemp(prefix="cw-", dir="/tmp")
    os.rmdir(wt)
    ran = []
    try:
        rc, out = sh("git -C /repo worktree add -q --detach %s HEAD" % wt, "/")
        assert rc == 0, out
        patch = os.path.join(src, "patch.diff")
        rc, out = sh("git apply %s" % patch, wt)
        if rc != 0:
            rc, out = sh("git apply --3way %s && git reset -q" % patch, wt)
            if rc != 0:
                print("REJECT %s: patch does not apply to /repo HEAD: %s" % (src, out[-400:]))
                return 1
        rc, newpatch = sh("git diff", wt)
        if not newpatch.strip():
            print("REJECT %s: empty diff" % src)
            return 1
        rc, out = sh("go build ./... && go test -vet=off -count=1 ./...", wt)
        ran.append({"cmd": "go build ./... && go test -vet=off -count=1 ./... (with change)", "rc": rc})
        if rc != 0:
            print("REJECT %s: suite fails with the change:\n%s" % (src, out[-800:]))
            return 1
        demos = [f for f in os.listdir(src) if f.endswith("_test.go")]
        if not demos:
            print("REJECT %s: no *_test.go demonstration (standalone programs not supported here)" % src)
            return 1
        demo = demos[0]
        text = open(os.path.join(src, demo)).read()
        m = re.search(r"place in:\s*(\S+)", text)
        place = (m.group(1) if m else ".").strip("`'\"")
        place = place.rstrip("/") or "."
        if place in ("the", "repository", "root"):
            place = "."
        tests = re.findall(r"^func (Test\w+)\(", text, re.M)
        runpat = "^(%s)$" % "|".join(tests)
        dst = os.path.join(wt, place, "zz_seeded_" + demo)
        shutil.copy(os.path.join(src, demo), dst)
        cmd = "go test " + os.environ.get("CONFIRM_FLAGS", "") + " -vet=off -count=1 -timeout 300s -run '%s' ./%s" % (runpat, place)
        rc1, out1 = sh(cmd, wt)
        ran.append({"cmd": cmd + " (with change)", "rc": rc1})
        if rc1 == 0:
            print("REJECT %s: demonstration passes with the change" % src)
            return 1
        sh("git checkout -- .", wt)
        rc2, out2 = sh(cmd, wt)
        ran.append({"cmd": cmd + " (without change, at /repo HEAD)", "rc": rc2})
        if rc2 != 0:
            print("REJECT %s: demonstration fails WITHOUT the change at /repo HEAD:\n%s" % (src, out2[-800:]))
            return 1
        dest = os.path.join("/verif/seeded", pid, name)
        os.makedirs(dest, exist_ok=True)
        open(os.path.join(dest, "patch.diff"), "w").write(newpatch)
        shutil.copy(os.path.join(src, demo), os.path.join(dest, demo))
        meta = {}
        try:
            meta = json.load(open(os.path.join(src, "meta.json")))
        except Exception:
            pass
        meta["property"] = pid
        meta["demo_place_in"] = place
        meta["confirmed"] = ran
        meta["confirmed_against"] = subprocess.check_output(["git", "-C", "/repo", "rev-parse", "--short", "HEAD"], text=True).strip()
        meta["author_ran"] = meta.pop("ran", None)
        json.dump(meta, open(os.path.join(dest, "meta.json"), "w"), indent=1)
        print("CONFIRMED %s -> %s (%s)" % (src, dest, meta.get("summary", "")[:100]))
        return 0
    finally:
        subprocess.run("git -C /repo worktree remove --force %s" % wt, shell=True, capture_output=True)
        shutil.rmtree(wt, ignore_errors=True)
        subprocess.run("git -C /repo worktree prune", shell=True)


if __name__ == "__main__":
    sys.exit(main())
