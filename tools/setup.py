"""setup: build the Go harness and warm the TLC case caches (spec-only work)."""
import importlib, os, sys, time, glob
import vlib


def main():
    t0 = time.time()
    try:
        vlib.build_harness()
    except vlib.Inconclusive as e:
        print("setup: harness build failed:", e)
        return 1
    rc = 0
    for f in sorted(glob.glob(os.path.join(os.path.dirname(__file__), "props", "c*.py"))):
        name = os.path.basename(f)[:-3]
        mod = importlib.import_module("props." + name)
        if hasattr(mod, "prepare"):
            t = time.time()
            try:
                mod.prepare()
                print("setup: %s prepared in %.1fs" % (name, time.time() - t), flush=True)
            except vlib.Inconclusive as e:
                print("setup: %s prepare failed: %s" % (name, str(e)[:500]), flush=True)
                rc = 1
    print("setup done in %.1fs" % (time.time() - t0))
    return rc
