#!/bin/bash
# mutant_matrix.sh [tier]: runs every seeded change against the check of its own property (and related ones) and writes seeded/MATRIX.md
tier=${1:-quick}
cd /verif
declare -A also=( [C01]="C04" [C02]="C12" [C03]="C12" [C12]="C03 C04" [C09]="C10 C13" [C10]="C09 C08" [C11]="C10" [C05]="C04" [C18]="C03" )
out=${MATRIX_OUT:-seeded/MATRIX.md}
echo "# Seeded changes vs checks ($tier tier, $(git -C /repo rev-parse --short HEAD))" > $out
echo "" >> $out
echo "| change | summary | caught by (rc=1 with VIOLATION) | not caught by |" >> $out
echo "|--------|---------|--------------------------------|---------------|" >> $out
for d in seeded/C*/${MUT_GLOB:-*}; do
  id=$(basename $(dirname $d)); m=$(basename $d)
  checks="$id ${also[$id]}"; [ -n "$OWN_ONLY" ] && checks="$id"
  res=$(tools/try_mutant.sh $d/patch.diff $tier $checks 2>&1)
  caught=$(echo "$res" | grep 'rc=1' | sed 's/== \(C[0-9]*\) .*/\1/' | tr '\n' ' ')
  missed=$(echo "$res" | grep -v 'rc=1' | grep '^== ' | sed 's/== \(C[0-9]*\) rc=\([0-9]*\).*/\1(rc=\2)/' | tr '\n' ' ')
  other=$(echo "$res" | grep -v '^== ' | tr '\n' ' ')
  summ=$(jq -r .summary $d/meta.json | cut -c1-140 | tr '|' '/')
  echo "| $id/$m | $summ | $caught | $missed $other |" >> $out
  echo "$id/$m caught: $caught missed: $missed $other"
done
git -C /repo status --short
