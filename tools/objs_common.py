"""Shared pipeline of C09 / C10: Gen_Obj universe -> replay -> classification."""
import json, os
import vlib, universe

CFG = 'SPECIFICATION Spec\nINVARIANTS EmitObj EmitRel Laws\nCHECK_DEADLOCK FALSE\n'


def gen():
    path, leaves = universe.leaves_file()
    return vlib.cached_tlc("objs", "Gen_Obj", CFG, workers=8, timeout=2400, env={"LEAVES": path}), leaves


def replay(pid, tier, seed):
    (data, meta), leaves = gen()
    out = os.path.join(vlib.BUILD, "work", pid)
    os.makedirs(out, exist_ok=True)
    summ = json.loads(vlib.run_harness(["c0910", data, out, seed, tier], timeout=3000))
    events = [json.loads(l) for l in open(os.path.join(out, "c0910.events.ndjson"))]
    return data, meta, summ, events, out


def classify_rel(v, events, only=None):
    """relation mismatches: known finding iff the code agrees with the L2 variant (Features kept whole)."""
    n = 0
    for e in events:
        if e["op"] != "rel" or (only and not only(e)):
            continue
        n += 1
        rec = {"property": v.pid, "event": e, "expected_L1": e["exp"], "predicted_L2": e["l2"], "site": "collection.go:97-127",
               "what": "%s with A=%s B=%s returned %s (%s), exact answer %s" % (e["call"], json.dumps(e["A"])[:300], json.dumps(e["B"])[:300], e["got"], e["out"], e["exp"])}
        k = v.find_known("collection.go:97-127")
        if e["out"] == "ok" and e["got"] == e["l2"] and e["l2"] != e["exp"] and k is not None:
            v.known_finding(k["id"], rec)
        else:
            v.violation(rec)
    return n
