"""Shared machinery for the /verif checks: TLC runner, case cache, Go harness
build, known-findings file, verdict bookkeeping and evidence writer.

Exit codes of a check: 0 = property held on everything explored (possibly with
KNOWN-FINDING lines), 1 = VIOLATION, 2 = INCONCLUSIVE (tool failure, never a
verdict about the code)."""
import hashlib, json, os, re, shutil, subprocess, sys, time, glob, itertools

ROOT = os.path.dirname(os.path.dirname(os.path.abspath(__file__)))
SPEC = os.path.join(ROOT, "spec")
BUILD = os.path.join(ROOT, "build")
HARNESS = os.path.join(ROOT, "harness")
REPO = os.environ.get("VERIF_REPO", "/repo")
GOENV = dict(os.environ, GOFLAGS="-mod=mod", GOPROXY="off", GOSUMDB="off",
             GOTOOLCHAIN="local")
_run_counter = itertools.count()


class Inconclusive(Exception):
    pass


def log(*a):
    print(*a, file=sys.stderr, flush=True)


def sha(*chunks):
    h = hashlib.sha256()
    for c in chunks:
        if isinstance(c, str):
            c = c.encode()
        h.update(c)
        h.update(b"\0")
    return h.hexdigest()[:16]


def spec_deps(module, seen=None):
    """Local spec modules reachable from `module` through EXTENDS / INSTANCE."""
    seen = seen if seen is not None else set()
    if module in seen:
        return seen
    path = os.path.join(SPEC, module + ".tla")
    if not os.path.exists(path):
        return seen
    seen.add(module)
    text = open(path).read()
    for m in re.finditer(r"^\s*EXTENDS\s+(.+)$", text, re.M):
        for name in m.group(1).split(","):
            spec_deps(name.strip(), seen)
    for m in re.finditer(r"INSTANCE\s+(\w+)", text):
        spec_deps(m.group(1), seen)
    return seen


def spec_hash(module=None, extra=""):
    """Hash of the spec modules `module` depends on (all of spec/ when None): the case cache key."""
    parts = []
    if module is None:
        files = sorted(glob.glob(os.path.join(SPEC, "*.tla")))
    else:
        files = [os.path.join(SPEC, m + ".tla") for m in sorted(spec_deps(module))]
    for f in files:
        parts.append(os.path.basename(f))
        parts.append(open(f, "rb").read())
    return sha(*parts, extra)


def tla2json(s):
    """Convert a TLA+ value printed by ToString that only uses tuples, ints,
    strings and booleans into JSON text."""
    out = []
    i, n = 0, len(s)
    while i < n:
        c = s[i]
        if c == '"':
            j = i + 1
            while s[j] != '"':
                if s[j] == "\\":
                    j += 1
                j += 1
            out.append(s[i:j + 1])
            i = j + 1
        elif s.startswith("<<", i):
            out.append("[")
            i += 2
        elif s.startswith(">>", i):
            out.append("]")
            i += 2
        elif s.startswith("TRUE", i):
            out.append("true")
            i += 4
        elif s.startswith("FALSE", i):
            out.append("false")
            i += 5
        else:
            out.append(c)
            i += 1
    return "".join(out)


def parse_tla_line(line):
    """A line printed by PrintT(ToString(<<...>>)) -> python value."""
    inner = json.loads(line)
    return json.loads(tla2json(inner))


class TLCResult:
    def __init__(self):
        self.ok = False          # TLC finished and reported no error
        self.violated = None     # name of violated invariant/property, if any
        self.error = None        # other error text
        self.generated = 0
        self.distinct = 0
        self.lines = []          # raw PrintT lines (strings starting with "\"<<")
        self.wall = 0.0
        self.log = ""
        self.cover_zero = []     # coverage lines with count 0 (if -coverage)
        self.timed_out = False

    def values(self):
        return [parse_tla_line(l) for l in self.lines]


def run_tlc(module, cfg, *, workers=8, env=None, timeout=900, simulate=None,
            depth=None, seed=None, coverage=False, keep_log=None, heap=None,
            want_lines=True, deadlock=False):
    """Run TLC on spec/<module>.tla with config text `cfg` in a scratch
    directory.  Returns TLCResult.  Raises Inconclusive on tool failure."""
    scratch = os.path.join(BUILD, "run", "%d-%d" % (os.getpid(), next(_run_counter)))
    os.makedirs(scratch, exist_ok=True)
    try:
        for f in glob.glob(os.path.join(SPEC, "*.tla")):
            shutil.copy(f, scratch)
        with open(os.path.join(scratch, module + ".cfg"), "w") as f:
            f.write(cfg)
        cmd = ["timeout", "-k", "10", str(timeout), "tlc", "-workers", str(workers),
               "-metadir", os.path.join(scratch, "meta"), "-config", module + ".cfg",
               "-noGenerateSpecTE"]
        if not deadlock:
            pass
        if simulate:
            cmd += ["-simulate", simulate]
        if depth:
            cmd += ["-depth", str(depth)]
        if seed is not None:
            cmd += ["-seed", str(seed)]
        if coverage:
            cmd += ["-coverage", "1"]
        cmd.append(module + ".tla")
        e = dict(os.environ)
        e.setdefault("JAVA_TOOL_OPTIONS", "-Xss256m")
        if env:
            e.update({k: str(v) for k, v in env.items()})
        t0 = time.time()
        logpath = os.path.join(scratch, "tlc.log")
        with open(logpath, "w") as lf:
            p = subprocess.run(cmd, cwd=scratch, env=e, stdout=lf, stderr=subprocess.STDOUT)
        r = TLCResult()
        r.wall = time.time() - t0
        r.timed_out = p.returncode in (124, 137)
        tail = []
        with open(logpath, errors="replace") as lf:
            for line in lf:
                line = line.rstrip("\n")
                if line.startswith('"<<'):
                    if want_lines:
                        r.lines.append(line)
                    continue
                tail.append(line)
                if len(tail) > 400:
                    tail = tail[-200:]
                m = re.match(r"(\d+) states generated, (\d+) distinct states found", line)
                if m:
                    r.generated, r.distinct = int(m.group(1)), int(m.group(2))
                m = re.match(r"The number of states generated: (\d+)", line)
                if m:
                    r.generated = int(m.group(1))
                    r.distinct = max(r.distinct, 1)
                m = re.match(r"Progress: (\d+) states checked, (\d+) traces generated", line)
                if m:
                    r.generated = max(r.generated, int(m.group(1)))
                    r.distinct = max(r.distinct, int(m.group(2)))
                if "No error has been found" in line:
                    r.ok = True
                m = re.match(r"Error: Invariant (\S+) is violated", line)
                if m:
                    r.violated = m.group(1)
                m = re.match(r"Error: (Temporal propert\w+ .*violated|Action property (\S+) is violated|The postcondition.*)", line)
                if m and not r.violated:
                    r.violated = m.group(0)
                if line.startswith("Error:") and not r.violated and not r.error:
                    r.error = line
                if coverage and re.search(r": 0$", line) and "line" in line:
                    r.cover_zero.append(line.strip())
        r.log = "\n".join(tail[-60:])
        if keep_log:
            os.makedirs(os.path.dirname(keep_log), exist_ok=True)
            shutil.copy(logpath, keep_log)
        if simulate and p.returncode == 0 and not r.error and not r.violated:
            r.ok = True
        if r.timed_out and not simulate:
            raise Inconclusive("TLC timed out on %s after %ds" % (module, timeout))
        if r.timed_out and simulate:
            r.ok = not r.error and not r.violated
        if not r.ok and not r.violated:
            raise Inconclusive("TLC failed on %s: %s\n%s" % (module, r.error, r.log))
        return r
    finally:
        shutil.rmtree(scratch, ignore_errors=True)


def cached_tlc(name, module, cfg, **kw):
    """Run a generator spec once per (spec hash, cfg, env) and cache its
    PrintT lines + state counts under build/cases/."""
    key = sha(spec_hash(module), module, cfg, json.dumps(kw.get("env") or {}, sort_keys=True),
              str(kw.get("simulate")), str(kw.get("depth")), str(kw.get("seed")))
    d = os.path.join(BUILD, "cases", key)
    meta = os.path.join(d, name + ".meta.json")
    data = os.path.join(d, name + ".lines")
    if os.path.exists(meta) and os.path.exists(data):
        m = json.load(open(meta))
        m["cached"] = True
        return data, m
    r = run_tlc(module, cfg, **kw)
    if not r.ok:
        raise Inconclusive("generator %s did not finish cleanly: %s %s" % (name, r.violated, r.log))
    os.makedirs(d, exist_ok=True)
    with open(data + ".tmp", "w") as f:
        for l in r.lines:
            f.write(tla2json(json.loads(l)) + "\n")
    os.replace(data + ".tmp", data)
    m = {"name": name, "module": module, "generated": r.generated, "distinct": r.distinct,
         "lines": len(r.lines), "wall_s": round(r.wall, 2), "cached": False}
    json.dump(m, open(meta, "w"))
    return data, m


def build_harness():
    """(Re)build the Go harness against /repo's current working tree with the
    verif build tag."""
    os.makedirs(os.path.join(BUILD, "bin"), exist_ok=True)
    shutil.copy(os.path.join(REPO, "go.sum"), os.path.join(HARNESS, "go.sum"))
    out = os.path.join(BUILD, "bin", "harness")
    cover = ["-cover", "-coverpkg=github.com/tidwall/geojson/...,verif/harness/..."] if os.environ.get("VERIF_COVER") else []
    p = subprocess.run(["go", "build", "-tags", "verif"] + cover + ["-o", out, "./cmd/harness"],
                       cwd=HARNESS, env=GOENV, capture_output=True, text=True)
    if p.returncode != 0:
        raise Inconclusive("harness build failed (does /repo compile?):\n" + p.stdout + p.stderr)
    return out


def build_harness_race():
    """The same harness built with the Go race detector (C16 stress run)."""
    out = os.path.join(BUILD, "bin", "harness-race")
    p = subprocess.run(["go", "build", "-race", "-tags", "verif", "-o", out, "./cmd/harness"],
                       cwd=HARNESS, env=GOENV, capture_output=True, text=True)
    if p.returncode != 0:
        raise Inconclusive("race-detector build of the harness failed:\n" + p.stdout + p.stderr)
    return out


def run_harness(args, timeout=1800, stdin=None, env=None):
    exe = os.path.join(BUILD, "bin", "harness")
    e = dict(GOENV)
    if env:
        e.update({k: str(v) for k, v in env.items()})
    p = subprocess.run(["timeout", "-k", "10", str(timeout), exe] + [str(a) for a in args],
                       cwd=ROOT, env=e, capture_output=True, text=True, input=stdin)
    if p.returncode != 0:
        raise Inconclusive("harness %s failed rc=%d:\n%s\n%s" % (args[:2], p.returncode, p.stdout[-2000:], p.stderr[-4000:]))
    return p.stdout


# ---------------------------------------------------------------- findings

def load_known():
    path = os.path.join(ROOT, "KNOWN_FINDINGS.jsonl")
    out = []
    if os.path.exists(path):
        for l in open(path):
            l = l.strip()
            if l and not l.startswith("#") and l.startswith("{"):
                out.append(json.loads(l))
    return out


class Verdict:
    """Collects mismatches and classifies them (DESIGN.md section 4)."""

    def __init__(self, pid):
        self.pid = pid
        self.known = [k for k in load_known() if k.get("status") == "known" and pid in k.get("properties", [k.get("property")])]
        self.known_hits = {}       # finding id -> count
        self.known_examples = {}
        self.violations = []       # dicts
        self.drift = 0
        self.notes = []

    def known_finding(self, fid, example=None):
        self.known_hits[fid] = self.known_hits.get(fid, 0) + 1
        if example is not None and fid not in self.known_examples:
            self.known_examples[fid] = example

    def find_known(self, site, polarity=None):
        for k in self.known:
            if (k.get("site") == site or site in k.get("sites", [])) and (polarity is None or k.get("polarity") in (None, "any", polarity)):
                return k
        return None

    def violation(self, rec):
        self.violations.append(rec)

    def finish(self):
        """Print KNOWN-FINDING / VIOLATION lines, write replay files, return exit code."""
        for k in self.known:
            fid = k["id"]
            if fid in self.known_hits:
                print("KNOWN-FINDING: property=%s %s %s (met %d times this run)" % (
                    self.pid, k.get("site", ""), k["what"], self.known_hits[fid]))
        if not self.violations:
            return 0
        os.makedirs(os.path.join(ROOT, "replay"), exist_ok=True)
        seen = set()
        for v in self.violations[:20]:
            h = sha(json.dumps(v, sort_keys=True))
            if h in seen:
                continue
            seen.add(h)
            path = os.path.join(ROOT, "replay", "%s-%s.json" % (self.pid, h))
            json.dump(v, open(path, "w"), indent=1, sort_keys=True)
            print("VIOLATION property=%s replay=%s" % (self.pid, path))
            log("  ", json.dumps(v, sort_keys=True)[:600])
        if len(self.violations) > 20:
            log("  ... %d violations in total" % len(self.violations))
        return 1


def write_evidence(pid, tier, seed, t0, cov, assumptions, violations=0):
    cov.setdefault("states", 0)
    cov.setdefault("transitions", 0)
    cov.setdefault("traces_validated_against_impl", 0)
    ev = {"property_id": pid, "tier": tier, "seed": int(seed), "level": "model_checking",
          "coverage": cov, "assumptions": assumptions,
          "wall_s": round(time.time() - t0, 2), "violations": int(violations)}
    os.makedirs(os.path.join(ROOT, "evidence"), exist_ok=True)
    path = os.path.join(ROOT, "evidence", pid + ".json")
    json.dump(ev, open(path + ".tmp", "w"), indent=1)
    os.replace(path + ".tmp", path)
    return path


A_FLOAT = ("A-float: for dyadic inputs of magnitude <= 2^20 every float operation in geometry/*.go "
           "is exact or order-preserving (DESIGN.md 2.1); lattice answers computed by TLC over integers "
           "are transported to the orbit x -> s*x+t (s a power of two) and the D4 symmetries")
TOOLS = "TLC 1.8 (tla2tools) evaluates the specification exactly over 32-bit integers (overflow is a hard error)"


# ---------------------------------------------------------------- trace judging

def judge_trace(module, trace_path, workers=8, timeout=1800, cfg=None, env=None, split=False):
    """Run a TraceBase-style trace spec over an ndjson event file.  Returns
    (events, mismatches, tlc_result) where mismatches are the parsed MISMATCH
    tuples [tag,pos,exp,pred,site,...].  Raises Inconclusive unless TLC
    evaluated every event (distinct states = 1 + NChunks + len)."""
    events = [json.loads(l) for l in open(trace_path)]
    if not events:
        raise Inconclusive("empty trace " + trace_path)
    # TLC holds the whole trace as values (about 50 times the size of the text): long traces are judged in parts -
    # only where every event is judged on its own (split=True); traces whose events refer to earlier ones stay whole
    size = os.path.getsize(trace_path)
    part_max = 40000 if size / max(1, len(events)) < 800 else 12000
    if split and (len(events) > part_max or size > 60e6):
        nparts = max((len(events) + part_max - 1) // part_max, int(size // 40e6) + 1)
        per = (len(events) + nparts - 1) // nparts
        lines = open(trace_path).readlines()
        all_mism, total = [], None
        for k in range(nparts):
            chunk = lines[k * per:(k + 1) * per]
            if not chunk:
                continue
            pp = "%s.part%d" % (trace_path, k)
            with open(pp, "w") as f:
                f.writelines(chunk)
            _, mism, r = judge_trace(module, pp, workers=workers, timeout=timeout, cfg=cfg, env=env, split=False)
            os.remove(pp)
            for m in mism:
                m[1] += k * per
            all_mism += mism
            if total is None:
                total = r
            else:
                total.distinct += r.distinct
                total.generated += r.generated
                total.wall += r.wall
        return events, all_mism, total
    e = {"TRACE": os.path.abspath(trace_path)}
    if env:
        e.update(env)
    r = run_tlc(module, cfg or "SPECIFICATION TSpec\nINVARIANT Judge\nCHECK_DEADLOCK FALSE\n",
                workers=workers, timeout=timeout, env=e)
    if not r.ok:
        raise Inconclusive("trace spec %s stopped: %s\n%s" % (module, r.violated, r.log))
    nchunks = min(32, len(events))
    want = 1 + 32 + len(events)
    if r.distinct != want:
        raise Inconclusive("trace %s not fully consumed by %s: %d distinct states, expected %d" % (
            trace_path, module, r.distinct, want))
    mism = [v for v in r.values() if v and v[0] == "MISMATCH"]
    return events, mism, r


def classify(verdict, events, mism, describe=None):
    """DESIGN.md section 4: got != L1.  Known finding iff the code agrees with
    the L2 transcription of the pinned algorithm at a listed site."""
    for m in mism:
        pos, exp, pred, site = m[1], m[2], m[3], m[4]
        e = events[pos - 1]
        got = e.get("got")
        rec = {"property": verdict.pid, "event": e, "expected_L1": exp, "predicted_L2": pred, "site": site}
        if describe:
            rec["what"] = describe(e)
        preds = pred if isinstance(pred, list) and e.get("predset") else [pred]
        if got in preds and got != exp:
            k = verdict.find_known(site, "exp=%s" % json.dumps(exp))
            if k is not None:
                verdict.known_finding(k["id"], rec)
                continue
        verdict.violation(rec)
