"""Shared pipeline of C02 / C03 / C12: universe -> replay -> explain -> verdict."""
import json, os
import vlib, universe

EXPLAIN_CFG = "CONSTANT N = 3\nSPECIFICATION TSpec\nINVARIANT Judge\nCHECK_DEADLOCK FALSE\n"


def got_str(e):
    if e["out"] == "ok":
        return "true" if e["got"] else "false"
    return "runaway" if e.get("runaway") else "panic"


def describe(e):
    return "%s [%s] on A=%s B=%s (index %s, d4=%s, encodings A:%s B:%s, orbit map %s%s) returned %s, exact answer %s" % (
        e["api"], {"con": "A contains B", "int": "intersects"}[e["op"]], json.dumps(e["A"])[:300], json.dumps(e["B"])[:300],
        e["index"], e["d4"], e["encA"], e["encB"], e["map"], ", via Move" if e.get("moved") else "", got_str(e), e["exp"])


def run_pairs(pid, tier, seed, ops, nconf, stride, only_nonuniform=False, l1_recheck=200, general=False, v=None):
    """Returns (verdict, coverage dict pieces).  general=True: the general-slope universe (answers by PlanarGeneral)."""
    if general == "holes":
        shapes, spath, pairs, metas = universe.build_holes(tier)
        out = os.path.join(vlib.BUILD, "work", pid, "holes")
    elif general:
        shapes, spath, pairs, metas = universe.build_general(tier)
        out = os.path.join(vlib.BUILD, "work", pid, "general")
    else:
        shapes, spath, pairs, metas = universe.build(tier)
        out = os.path.join(vlib.BUILD, "work", pid)
    os.makedirs(out, exist_ok=True)
    summ = json.loads(vlib.run_harness(["pairs", spath, pairs, out, seed, ops, nconf, stride], timeout=3000))
    capped = bool(summ.get("event_cap_hit"))   # more deviating calls than TLC is asked to explain: the first ones (in replay order) are explained
    path = os.path.join(out, "pairs.events.ndjson")
    events = [json.loads(l) for l in open(path)]
    total_events = len(events)
    if only_nonuniform:
        events = [e for e in events if not e["uniform"]]
    if v is None:
        v = vlib.Verdict(pid)
    r = None
    expl = {"events": 0}
    if events:
        for i, e in enumerate(events):
            if i < l1_recheck and "sub0" in e["encA"] and "sub0" in e["encB"]:
                e["chkg" if general else "chk"] = 1
        sel = os.path.join(out, "explain.ndjson")
        with open(sel, "w") as f:
            for e in events:
                f.write(json.dumps(e) + "\n")
        evs, mism, r = vlib.judge_trace("Trace_Pairs", sel, cfg=EXPLAIN_CFG, timeout=6000)
        assert len(mism) == len(evs)
        sites = {}
        examples = {}
        for m in mism:
            e = evs[m[1] - 1]
            exp_l1, preds, site = m[2], m[3], m[4]
            got = got_str(e)
            rec = {"property": pid, "event": {k: e[k] for k in e if k not in ("A0", "B0", "chk", "chkg")}, "expected_L1": exp_l1,
                   "predicted_L2": preds, "site": site, "what": describe(e)}
            if ("chk" in e or "chkg" in e) and exp_l1 != ("true" if e["exp"] else "false"):
                raise vlib.Inconclusive("L1 re-derivation %s disagrees with the generated answer for %s" % (exp_l1, json.dumps(e)[:400]))
            if got == exp_l1:
                continue  # cannot happen: only deviating calls are recorded
            if got in preds:
                k = v.find_known(site)
                if k is not None:
                    v.known_finding(k["id"], rec)
                    sk = (site, "exact=%s got=%s" % (exp_l1, got))
                    sites[sk] = sites.get(sk, 0) + 1
                    if sk not in examples and "sub0" in e["encA"] and "sub0" in e["encB"]:
                        examples[sk] = {"A": e["A"], "B": e["B"], "api": e["api"]}
                    continue
            v.violation(rec)
        expl = {"events": len(evs), "by_site_and_polarity": {"%s %s" % k: n for k, n in sorted(sites.items())},
                "example_per_site_and_polarity": {"%s %s" % k: ex for k, ex in sorted(examples.items())}}
    gen_states = sum(m["distinct"] for m in metas)
    gen_trans = sum(m["generated"] for m in metas)
    cov = {
        "states": gen_states + (r.distinct if r else 0),
        "transitions": gen_trans + (r.generated if r else 0),
        "traces_validated_against_impl": 1 if r else 0,
        "evaluations": summ["evaluations"],
        "distinct_nontrivial": summ["pairs"],
        "universe": {"shapes": len(shapes), "class_representatives_as_A": sum(s["a"] for s in shapes),
                     "strata": {m["name"]: m["lines"] for m in metas[:-1]}, "pair_rows": metas[-1]["lines"], "general_slopes": general},
        "replayed_pairs": summ["pairs"], "configurations_per_pair": nconf, "pair_sampling_stride": stride,
        "mismatching_calls": summ["mismatching_calls"], "distinct_mismatches": summ["distinct_mismatches"], "deviations_sampled_for_explanation": total_events,
        "explained_by_L2": expl, "known_finding_hits": v.known_hits,
        "explain_sampling": {"classes_of_deviation": summ.get("strata"), "witnesses_per_class": summ.get("per_stratum"), "some_deviations_not_explained": capped},
    }
    return v, cov, shapes


UNIVERSE_RULE = ("universe: every point, rectangle, octilinear line of <= 3 points and simple octilinear ring of <= 5 vertices on "
                 "the 4x4 lattice, plus the square and the triangle with every simple hole of <= 4 vertices inside or touching "
                 "(Gen_Shapes, one per rotation/direction class); for every representative A under the lattice symmetries and "
                 "every shape B, Gen_Pairs prints the witness-grid answers (intersects, contains); the replayer runs each pair "
                 "through geometry- and object-level calls with both receivers under the 8 lattice symmetries, random ring "
                 "rotations/reversals/closing-vertex variants, 3 index configurations, orbit maps, Move, and inflation. "
                 "distinct_nontrivial = replayed (A,B) pairs")


GENERAL_RULE = ("general slopes: two- and three-point lines, triangles and simple quadrilaterals on the 4x4 lattice with at least one edge "
                "that is not horizontal, vertical or diagonal (Gen_ShapesG; every 2-point line and triangle, every 4th 3-point line and "
                "quadrilateral in the quick tier), together with every point and a sample of the rectangles, rings and holed polygons of "
                "the octilinear universe; answers by PlanarGeneral (skeletons meet or a point of one lies in the other; containment by "
                "cutting every skeleton segment of B at the skeleton of A with rational parameters and testing the midpoints, plus one "
                "interior point per hole), which TLC shows equal to the witness-grid definition on octilinear pairs (theorem TG); "
                "replayed like the octilinear universe")


HOLES_RULE = ("structured holes: on the 10x10 lattice a square exterior with every ordered pair and (every third) ordered triple of pairwise "
              "disjoint holes from a catalogue of six (small, wide, tall, triangular boxes; the order of the holes is part of the shape) as "
              "receivers, against every lattice point, unit and full-width segments, bent lines, unit and 2x2 boxes, the plugs of the holes "
              "and the exterior (Gen_ShapesH); answers by PlanarGeneral; replayed like the other universes")


def general_cov(cov, rule=None):
    return {k: cov[k] for k in ("states", "transitions", "evaluations", "replayed_pairs", "universe", "mismatching_calls", "explained_by_L2",
                                "configurations_per_pair") if k in cov} | {"rule": rule or GENERAL_RULE}


def extra_universes(pid, tier, seed, ops, nconf, stride, v, cov, **kw):
    """the general-slope and the structured-holes universes, added to the coverage of the octilinear run"""
    for name, g, rule in (("general_slopes", True, GENERAL_RULE), ("structured_holes", "holes", HOLES_RULE)):
        # every receiver of the holes universe is a polygon with holes (the sampled class): sample it less thinly
        v, gcov, _ = run_pairs(pid, tier, seed, ops, nconf, max(1, stride // 8) if g == "holes" else stride, general=g, v=v, **kw)
        cov[name] = general_cov(gcov, rule)
        cov["evaluations"] += gcov["evaluations"]
        cov["distinct_nontrivial"] += gcov["distinct_nontrivial"]
    cov["known_finding_hits"] = v.known_hits
    return v
