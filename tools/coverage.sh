#!/bin/bash
# coverage.sh: statement coverage of tidwall/geojson reached by the harness during the quick tier (diagnostic, not a check).
# Builds the harness with `go build -cover`, runs every quick check with GOCOVERDIR set, prints per-file coverage and the uncovered blocks.
cd /verif
export VERIF_COVER=1 GOCOVERDIR=/verif/build/cover GOFLAGS=-mod=mod GOPROXY=off GOSUMDB=off GOTOOLCHAIN=local
rm -rf $GOCOVERDIR; mkdir -p $GOCOVERDIR
for id in $(jq -r '.checks[].property_id' MANIFEST.json); do ./check $id quick > /dev/null 2>&1; echo -n "$id=$? "; done; echo
(cd harness && go tool covdata textfmt -i=$GOCOVERDIR -o /verif/build/cover.txt)
python3 - <<'P'
import re, collections
un=collections.defaultdict(list); tot=collections.Counter(); cov=collections.Counter()
for l in open('/verif/build/cover.txt'):
    m=re.match(r'(.+):(\d+)\.(\d+),(\d+)\.(\d+) (\d+) (\d+)', l)
    if not m or 'tidwall/geojson/' not in m.group(1): continue
    f=m.group(1).split('tidwall/geojson/')[1]; n=int(m.group(6))
    tot[f]+=n
    if int(m.group(7))>0: cov[f]+=n
    else: un[f].append((int(m.group(2)),int(m.group(4))))
for f in sorted(tot):
    print("%-32s %4d/%4d %5.1f%%  uncovered: %s" % (f, cov[f], tot[f], 100*cov[f]/tot[f], sorted(un[f])[:30]))
P
unset VERIF_COVER GOCOVERDIR
./check setup > /dev/null 2>&1   # rebuild the plain harness
