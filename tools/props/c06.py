"""C06 Parse -> JSON -> Parse is a lossless fixpoint."""
import json, os
import vlib
from props import c07

PID = "C06"


def prepare():
    c07.gen(aliens=True)
    c07.gen()
    c07.gen_lex()


STRUCTURAL = {"Point": "coordinates", "LineString": "coordinates", "Polygon": "coordinates", "MultiPoint": "coordinates", "MultiLineString": "coordinates",
              "MultiPolygon": "coordinates", "GeometryCollection": "geometries", "Feature": "geometry", "FeatureCollection": "features"}
ALIEN_KEYS = {"coordinates", "geometries", "geometry", "features"}


def strip_aliens(v, top=True):
    """the decoded document without the members that are named like another type's required member (GeoJSON objects only: the root and what
    hangs below its geometry / geometries / features); returns (value, number of members removed)"""
    n = 0
    if isinstance(v, dict) and isinstance(v.get("type"), str) and v["type"] in STRUCTURAL:
        own = STRUCTURAL[v["type"]]
        out = {}
        for k, x in v.items():
            if k in ALIEN_KEYS and k != own:
                n += 1
                continue
            if k == own and k != "coordinates":
                if isinstance(x, list):
                    ys = []
                    for y in x:
                        y2, m = strip_aliens(y, False)
                        n += m
                        ys.append(y2)
                    x = ys
                else:
                    x, m = strip_aliens(x, False)
                    n += m
            out[k] = x
        return out, n
    return v, 0


def explained_by_alien_members(e):
    """True iff the output equals the input with exactly its alien members removed (the known finding KF-C06-alien-members)"""
    try:
        vin, vout = json.loads(e["text"]), json.loads(e["output"])
    except Exception:
        return False
    stripped, n = strip_aliens(vin)
    if vin.get("type") == "Feature" and "properties" not in stripped:
        stripped["properties"] = vout.get("properties")      # a Feature always gets a properties member
    return n > 0 and stripped == vout


def run(tier, seed, t0):
    data, meta = c07.gen(aliens=True)
    rows, devs = c07.split(data)
    if tier == "thorough":
        cdata, cmeta = c07.gen_chains("c07", seed)
        c07.merge_rows([rows, cdata], rows + ".thorough", limit=40000, accepted_only=True)
        rows = rows + ".thorough"
        meta = dict(meta, distinct=meta["distinct"] + cmeta["distinct"], generated=meta["generated"] + cmeta["generated"])
    out = os.path.join(vlib.BUILD, "work", PID)
    os.makedirs(out, exist_ok=True)
    nrender = 5 if tier == "quick" else 15
    summ = json.loads(vlib.run_harness(["c06", rows, out, seed, nrender]))
    events, mism, r = vlib.judge_trace("Trace_C06", os.path.join(out, "c06.events.ndjson"), timeout=3000, split=True)
    v = vlib.Verdict(PID)
    api_drift = {}
    for m in mism:
        e = events[m[1] - 1]
        if m[2] in ("IsPoint / Z", "Members() does not return the foreign members"):
            # Members(), IsPoint() and Z() are specified (GeoDocOut) but are not part of C06's statement: reported, not alarmed
            api_drift[m[2]] = api_drift.get(m[2], 0) + 1
            continue
        rec = {"property": PID, "event": {k: e[k] for k in e if k not in ("doc", "out")}, "expected_L1": "round trip", "why": m[2],
               "what": "Parse(%s).JSON() = %s : %s" % (e["text"], e["output"], m[2])}
        kf = v.find_known("object.go:176-186")
        if kf is not None and m[2] == "output does not carry the information of the input" and explained_by_alien_members(e):
            v.known_finding(kf["id"], rec)
            continue
        v.violation(rec)
    for l in open(os.path.join(out, "c06.panics.ndjson")):
        e = json.loads(l)
        if e["op"] == "zero-sign":
            v.violation({"property": PID, "event": e, "what": "Parse(%s).JSON(): %s" % (e["text"], e["msg"])})
            continue
        v.violation({"property": PID, "event": e, "what": "Parse(%s) -> JSON() -> Parse panics: %s" % (e["text"], e["msg"])})
    lsum, lstates, lrows = c07.run_lex(PID, v, tier, seed, out)
    rc = v.finish()
    cov = {
        "states": meta["distinct"] + r.distinct, "transitions": meta["generated"] + r.generated,
        "traces_validated_against_impl": 1,
        "evaluations": summ["parses_accepted"], "distinct_nontrivial": summ["round_trips_recorded"],
        "rule": "every Gen_Doc document (the core base documents x every single structural mutation; see C07) that the real Parse accepts is "
                "round-tripped under 5 option sets and 3 number tables (17-digit values, 5e-324, -0, 1.8e308) with varied spellings, "
                "whitespace and escaped keys; each round trip is one trace event (input AST, tokenised output AST keeping member order "
                "and duplicates, valid / re-parsed / same kind / byte-identical second output / same answers) judged by Trace_C06: "
                "OutInfo(out) = ExpInfo(in) (type, x/y bit-for-bit via tokens, z/m of the declared dimensionality, child order, "
                "foreign members in order, properties on Features). distinct_nontrivial = distinct (document, table, options) round trips",
        "samples": [{k: events[len(events) // 2][k] for k in ("text", "output", "opts", "fix", "valid", "samekind", "sameans")}],
        "zero_sign_round_trips": summ.get("zero_sign_cases"), "round_trips_judged_by_tlc": len(events), "mismatches": len(mism), "accessor_deviations_outside_the_statement": api_drift,
        "byte_level": c07.lex_cov(lsum, lstates, lrows),
    }
    vlib.write_evidence(PID, tier, seed, t0, cov, [vlib.TOOLS,
                        "numbers are tokens of three float tables; output numbers are mapped back to tokens by float64 bit equality",
                        "documents using the Circle convention are not generated here (C13)",
                        "members named like another type's required member are generated (7 documents); the pinned code drops them: known finding KF-C06-alien-members, recognised when the output equals the input minus exactly those members"],
                        len(v.violations))
    return rc


def replay(path):
    rec = json.load(open(path))
    print(rec["what"])
    return 0
