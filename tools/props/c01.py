"""C01 Point membership (point-in-polygon/rect/line) is exact."""
import json, os
import vlib

PID = "C01"
CFG = 'CONSTANTS N = 3  MinK = %d  K = %d  Mode = "%s"\nSPECIFICATION Spec\nINVARIANTS %s Emit\nCHECK_DEADLOCK FALSE\n'
STRATA = {
    "quick": [("rect", 0, 0, "T4pip"), ("ring", 3, 3, "T4pip T1pip"), ("hole", 3, 3, "T4pip")],
    "thorough": [("rect", 0, 0, "T4pip"), ("ring", 3, 3, "T4pip T1pip"), ("hole", 3, 3, "T4pip"), ("ring", 4, 4, "T4pip")],
}


def gen(tier):
    return [vlib.cached_tlc("c01-%s-%d" % (m, k), "Gen_C01", CFG % (mk, k, m, inv), workers=8, timeout=1800)
            for (m, mk, k, inv) in STRATA[tier]]


def prepare():
    gen("quick")


def describe(e):
    return "%s on shape %s at point(s) %s [%s, %s, orbit map %s]" % (e.get("api"), json.dumps(e["shape"])[:300], e["pts"], e.get("cfg"), e.get("enc"), e.get("map"))


def run(tier, seed, t0):
    gens = gen(tier)
    out = os.path.join(vlib.BUILD, "work", PID)
    os.makedirs(out, exist_ok=True)
    nrandom = 2500 if tier == "quick" else 20000
    summ = json.loads(vlib.run_harness(["c01", ",".join(g[0] for g in gens), out, seed, nrandom, tier]))
    events, mism, r = vlib.judge_trace("Trace_C01", os.path.join(out, "c01.events.ndjson"))
    v = vlib.Verdict(PID)
    vlib.classify(v, events, mism, describe)
    rc = v.finish()
    row = json.loads(open(gens[1][0]).readlines()[777])
    nq = len(row[2])
    cov = {
        "states": sum(g[1]["distinct"] for g in gens) + r.distinct,
        "transitions": sum(g[1]["generated"] for g in gens) + r.generated,
        "traces_validated_against_impl": 1,
        "evaluations": summ["evaluations"] + summ["recorded"],
        "distinct_nontrivial": sum(g[1]["lines"] for g in gens) * nq,
        "rule": "Gen_C01 builds every vertex sequence (unrestricted: self-intersecting, repeated, collinear, zero-area) of the "
                "listed lengths over the coarse lattice {0,2,4,6}^2 as polygon exterior, as line string and as hole of four fixed "
                "exteriors (incl. a bow-tie and two-hole polygons), plus every rectangle, each against all 81 points of the fine "
                "lattice (-1..7)^2; strata %s; T4pip (PlanarImpl = Planar) and T1pip (L1 invariant under subdivision, repetition, "
                "rotation, reversal, closing vertex) are checked on every state. distinct_nontrivial = generated (shape, point) pairs. "
                "The replayer runs each pair through geometry- and object-level APIs (Point, SimplePoint, PointZ, Feature wrappers, "
                "both operand orders), 3 index configurations, re-encodings, orbit maps and inflation to 64..2048 vertices" % (STRATA[tier],),
        "exhaustive": True,
        "samples": [{"generated_row": {"shape": row[1], "mask_over_fine_lattice": row[2]}},
                    {"recorded_event": events[-1]}],
        "replayed_rows": summ["rows"], "replay_mismatches": summ["mismatches"], "recorded_point_queries": summ["recorded"],
        "series_with_at_least_64_points_built": summ["series_ge_64_points"],
        "events_judged_by_tlc": len(events), "mismatches_vs_L1": len(mism), "known_finding_hits": v.known_hits,
    }
    vlib.write_evidence(PID, tier, seed, t0, cov, [vlib.A_FLOAT, vlib.TOOLS,
                        "exhaustive for <= 3 (quick) / <= 4 (thorough) vertex rings on a 4x4 coarse lattice; larger rings via inflation of these and via the random trace (<= 62 vertices, |coord| <= 64)"],
                        len(v.violations))
    return rc


def replay(path):
    rec = json.load(open(path))
    e = rec["event"]
    res = json.loads(vlib.run_harness(["c01one", json.dumps(e)]))
    print(json.dumps(e)[:500], "->", res)
    if res["got"] != rec["expected_L1"]:
        print("VIOLATION property=%s replay=%s" % (PID, path))
        return 1
    return 0
