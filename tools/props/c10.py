"""C10 Collections answer as the composition of their children, indexed or not."""
import json, os
import vlib, objs_common as oc, session_common as sc

PID = "C10"


def prepare():
    oc.gen()
    sc.mc()
    sc.warm()


def is_coll(t):
    while t[0] == "Feature":
        t = t[1]
    return t[0] in ("MultiPoint", "MultiLineString", "MultiPolygon", "GeometryCollection", "FeatureCollection")


def run(tier, seed, t0):
    data, meta, summ, events, out = oc.replay(PID, tier, seed)
    v = vlib.Verdict(PID)
    # the session machine: behaviours of spec/Session.tla stepped through the real library
    sev, ssum, smeta, mcm = sc.replay(PID, tier, seed)
    nrel = oc.classify_rel(v, events + sev, only=lambda e: is_coll(e["A"]) or is_coll(e["B"]))
    for e in sev:
        if e["op"] == "session" and e["what"] in ("state", "empty", "rect", "npoints", "search", "fatal") and (e["what"] in ("search", "fatal") or sc.is_coll_tree(e.get("tree"))):
            v.violation({"property": PID, "event": e, "what": "session step %d (%s): %s of the object at key %s: got %s, the specification says %s" % (
                e["step"], e["history"][-1], e["what"], e.get("key"), json.dumps(e.get("got"))[:300], json.dumps(e.get("exp"))[:300])})
    facts = [e for e in events if e["op"] == "fact"]
    for e in facts:
        v.violation({"property": PID, "event": e, "what": "%s of %s (variant %s): got %s, expected %s" % (e["what"], json.dumps(e["tree"])[:300], e["variant"], e["got"], e["exp"])})
    # a collection with a single child answers as that child (transparency events of the wild objects, see C09)
    nsingle = 0
    for e in events:
        if e["op"] == "equiv" and is_coll(e["A2"]) and not is_coll(e["A"]):
            nsingle += 1
            if e["r1"] != e["r2"]:
                v.violation({"property": PID, "event": e, "what": "the single-child collection %s and its child %s answer differently against B=%s: %s vs %s" % (
                    json.dumps(e["A2"])[:200], json.dumps(e["A"])[:200], json.dumps(e["B"])[:200], e["r2"], e["r1"])})
    for e in events:
        if e["op"] == "compose" and e["got"] != e["some_child"]:
            rec = {"property": PID, "event": e, "what": "%s %s: the collection answers %s, some child answers %s" % (e["kind"], e["what"], e["got"], e["some_child"])}
            kf = v.find_known("circle.go:161-163")
            # known: a Circle child is pruned by its rectangle, which is that of the polygon approximation and misses part of the disc
            if kf is not None and e.get("outside_child_rect") and e["some_child"] and not e["got"]:
                v.known_finding(kf["id"], rec)
                continue
            v.violation(rec)
            continue
        if False:
            v.violation({"property": PID, "event": e, "what": "%s %s: the collection answers %s, some child answers %s" % (e["kind"], e["what"], e["got"], e["some_child"])})
    rc = v.finish()
    cov = {
        "states": meta["distinct"], "transitions": meta["generated"], "traces_validated_against_impl": smeta["behaviours"],
        "evaluations": summ["relation_calls"] + summ["fact_checks"], "distinct_nontrivial": summ["objects"],
        "rule": "the Gen_Obj universe (see C09; 670 objects incl. collections of 65-70 children): for every object the L1 emptiness, "
                "rectangle (union of the non-empty children), children order and, for collections, the set of children a Search must "
                "report for 8 query rectangles (SearchSemC: non-empty children whose rectangle meets the query) are compared with the "
                "real object built by constructors and by Parse with the child index off / 1 / count / count+1 / 64, with stop "
                "positions 0, 1, 2 (once each, early stop honoured); the relations intersects / contains / within of all pairs "
                "involving a collection are compared with ObjectsPred; Parse variants also carry a loose bbox member on every object (the rectangle "
                "comes from the positions); single-child collections of 45 'wild' planar objects (holes, degenerate rectangles, zero-length lines) "
                "must answer as their child against every partner. distinct_nontrivial = objects",
        "samples": [{"generated_object": json.loads(open(data).readline())[:5]}],
        "fact_checks": summ["fact_checks"], "fact_mismatches": len(facts), "single_child_collection_events": nsingle, "relation_mismatches_involving_collections": nrel,
        "known_finding_hits": v.known_hits,
        "session_machine": sc.evidence(ssum, smeta, mcm, sev),
    }
    vlib.write_evidence(PID, tier, seed, t0, cov, [vlib.TOOLS, vlib.A_FLOAT,
                        "the child R-tree (github.com/tidwall/rtree) is a black box: only its Search results are observed",
                        "point counts of collections are judged by C11"], len(v.violations))
    return rc


def replay(path):
    rec = json.load(open(path))
    print(rec["what"])
    return 0
