"""C03 Contains/Within is exact planar containment."""
import json, os
import vlib, pairs_common as pc

PID = "C03"


def prepare():
    import universe
    universe.build("quick")
    universe.build_general("quick")
    universe.build_holes("quick")


def run(tier, seed, t0):
    nconf, stride = (6, 40) if tier == "quick" else (10, 4)
    v, cov, shapes = pc.run_pairs(PID, tier, seed, "con", nconf, stride)
    v = pc.extra_universes(PID, tier, seed, "con", nconf, stride, v, cov)
    rc = v.finish()
    cov["rule"] = pc.UNIVERSE_RULE + "; C03 checks A.ContainsX(B), objA.Contains(objB), objB.Within(objA) and Feature wrappers against the exact answer; every deviating call is evaluated by the L2 transcription (Trace_Pairs) and accepted only as a listed known finding when the code agrees with the transcription of the pinned algorithm"
    cov["exhaustive"] = stride == 1
    cov["samples"] = [{"shape_A": shapes[1234]["s"], "shape_B": shapes[2500]["s"]}]
    vlib.write_evidence(PID, tier, seed, t0, cov, [vlib.A_FLOAT, vlib.TOOLS,
                        "4x4 lattice: the octilinear fragment exhaustively (witness-grid semantics), other slopes as a structured sample (PlanarGeneral)"],
                        len(v.violations))
    return rc


def replay(path):
    rec = json.load(open(path))
    print(rec["what"])
    res = json.loads(vlib.run_harness(["pairone", json.dumps(rec["event"])]))
    print(res)
    if res["got"] != rec["expected_L1"]:
        print("VIOLATION property=%s replay=%s" % (PID, path))
        return 1
    return 0
