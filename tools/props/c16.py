"""C16 Objects are immutable: concurrent queries are race-free and deterministic."""
import json, os, subprocess, re
import vlib
from props import c05

PID = "C16"
T9 = 'CONSTANTS Threads = {1,2,3}  Objects = {1,2}  Lazy = %s\nSPECIFICATION Spec\nINVARIANTS RaceFree Deterministic\nPROPERTY Immutable\nCHECK_DEADLOCK FALSE\n'


def t9():
    faithful = vlib.run_tlc("Concurrent", T9 % "FALSE", workers=4, timeout=300, want_lines=False)
    lazy = vlib.run_tlc("Concurrent", T9 % "TRUE", workers=4, timeout=300, want_lines=False)
    if not faithful.ok or faithful.violated:
        raise vlib.Inconclusive("T9: the faithful Concurrent model violates %s" % faithful.violated)
    if not lazy.violated:
        raise vlib.Inconclusive("T9 non-vacuity: the lazy-cache variant of Concurrent should violate immutability / race freedom")
    return faithful, lazy


def prepare():
    c05.gens()


def run(tier, seed, t0):
    faithful, lazy = t9()
    (od, om), _ = c05.gens()
    out = os.path.join(vlib.BUILD, "work", PID)
    os.makedirs(out, exist_ok=True)
    v = vlib.Verdict(PID)
    # (a) deterministic digest sweep
    dsum = json.loads(vlib.run_harness(["c16digest", od, out, seed]))
    dev, dmism, dr = vlib.judge_trace("Trace_C16", os.path.join(out, "c16.digest.ndjson"))
    for m in dmism:
        e = dev[m[1] - 1]
        v.violation({"property": PID, "event": e, "what": "%s on %s (%s)%s: reachable memory unchanged=%s, repeatable=%s" % (
            e["m"], json.dumps(e.get("A"))[:300], e.get("viaA"), " with argument %s" % json.dumps(e.get("B"))[:200] if e.get("B") else "", e["unchanged"], e["repeatable"])})
    # (a') history independence: every unary call on fresh objects in two fresh processes, in opposite orders
    fwd = json.loads(vlib.run_harness(["c16solo", od, "fwd"]))
    rev = json.loads(vlib.run_harness(["c16solo", od, "rev"]))
    order_dependent = [k for k in fwd if fwd[k] != rev.get(k)]
    for k in order_dependent[:20]:
        v.violation({"property": PID, "event": {"call": k, "forward": fwd[k], "reverse": rev.get(k)},
                     "what": "unary call %s on pool object (%s) returns different values depending on the calls made before it in the process "
                             "(hash %s after the forward sweep, %s after the reverse sweep)" % (k, fwd[k].split(" ", 1)[1], fwd[k].split()[0], str(rev.get(k)).split()[0])})
    # (b) schedule exploration under the race detector
    vlib.build_harness_race()
    G, K = (16, 3000) if tier == "quick" else (32, 20000)
    exe = os.path.join(vlib.BUILD, "bin", "harness-race")
    env = dict(vlib.GOENV, GORACE="halt_on_error=0 exitcode=0 history_size=2")
    p = subprocess.run(["timeout", "-k", "10", "1800", exe, "c16stress", od, out, str(seed), str(G), str(K)], cwd=vlib.ROOT, env=env, capture_output=True, text=True)
    if p.returncode != 0:
        raise vlib.Inconclusive("stress run failed rc=%d: %s" % (p.returncode, p.stderr[-1500:]))
    ssum = json.loads(p.stdout.strip().splitlines()[-1])
    races = re.findall(r"WARNING: DATA RACE\n(.*?)(?:\n==================|\Z)", p.stderr, re.S)
    spath = os.path.join(out, "c16.stress.ndjson")
    with open(spath, "a") as f:
        for rtext in races[:50]:
            f.write(json.dumps({"op": "race", "report": rtext[:1500]}) + "\n")
    sev, smism, sr = vlib.judge_trace("Trace_C16", spath, timeout=3000)
    for m in smism:
        e = sev[m[1] - 1]
        if e["op"] == "race":
            v.violation({"property": PID, "event": e, "what": "the Go race detector reported a data race between concurrent query methods:\n" + e["report"][:1200]})
        else:
            c = sev[e["k"]]
            v.violation({"property": PID, "event": e, "call": c, "what": "goroutine %d got a different reply than the same call run alone: %s on pool objects %s,%s" % (e["g"], c["m"], c["a"], c["b"])})
    rc = v.finish()
    cov = {
        "history_independence_calls": len(fwd), "history_dependent_replies": len(order_dependent),
        "states": faithful.distinct + lazy.distinct + dr.distinct + sr.distinct,
        "transitions": faithful.generated + lazy.generated + dr.generated + sr.generated,
        "traces_validated_against_impl": 2,
        "evaluations": dsum["calls"] + ssum["goroutines"] * ssum["calls"], "distinct_nontrivial": dsum["calls"] + ssum["calls"],
        "rule": "T9 (Concurrent.tla, 3 threads x 2 objects): with no write action every interleaving is race-free and returns the solo "
                "reply; the lazy-cache variant violates it (non-vacuity). Premise 'no query writes reachable memory' on the code: (a) "
                "for %d pool objects (the Gen_C05 universe built by constructors with default / R-tree indexes and by Parse) every "
                "unary method and 6 random binary calls each, on freshly built objects: deep digest (reflect walk over all reachable "
                "memory incl. unexported fields and the package variables DefaultParseOptions, DefaultIndexOptions, WorldPolygon) "
                "before = after, call repeatable; (b) %d goroutines x %d random calls over a shared pool first touched concurrently, "
                "built with the Go race detector, GOMAXPROCS %d: every reply equals the solo reply of an identical pool, race reports "
                "become 'race' events no action accepts. distinct_nontrivial = distinct calls" % (dsum["pool"], ssum["goroutines"], ssum["calls"], ssum["gomaxprocs"]),
        "samples": [{"digest_event": dev[52]}, {"stress_event": sev[-1]}],
        "digest_calls": dsum["calls"], "digest_changed": dsum["changed"], "stress_events": len(sev), "race_reports": len(races),
        "T9": {"faithful_states": faithful.distinct, "lazy_variant_violates": str(lazy.violated)},
    }
    vlib.write_evidence(PID, tier, seed, t0, cov, [vlib.TOOLS,
                        "schedules are sampled (Go scheduler + race detector), not enumerated; the reduction of C16 to 'no writes' is proved on the model (T9)",
                        "unexported package-level variables are invisible to the digest and are covered only by the race detector and the reply comparison"],
                        len(v.violations))
    return rc


def replay(path):
    rec = json.load(open(path))
    print(rec["what"])
    return 0
