"""C02 Intersects is exact planar intersection and symmetric."""
import json, os
import vlib, pairs_common as pc

PID = "C02"


def prepare():
    import universe
    universe.build("quick")
    universe.build_general("quick")
    universe.build_holes("quick")
    theorem_tg("quick")


TG_CFG = 'CONSTANTS CheckMasks = TRUE  Stride = %d  Phase = 1\nSPECIFICATION Spec\nINVARIANTS TG Laws\nCHECK_DEADLOCK FALSE\n'


def theorem_tg(tier):
    """TG: PlanarGeneral (any slope, rational cuts) = PlanarPairs (witness grid) on octilinear pairs; a sample of the receivers against every shape"""
    import universe
    shapes, spath, pairs, metas = universe.build("quick")
    stride = 40 if tier == "quick" else 8
    return vlib.cached_tlc("tg-%d" % stride, "Gen_PairsG", TG_CFG % stride, workers=16, timeout=3000, env={"SHAPES": spath})[1], len(shapes)


def run(tier, seed, t0):
    nconf, stride = (3, 1) if tier == "quick" else (12, 1)
    v, cov, shapes = pc.run_pairs(PID, tier, seed, "int", nconf, stride)
    v = pc.extra_universes(PID, tier, seed, "int", nconf, stride, v, cov)
    tg, nshapes = theorem_tg(tier)
    cov["theorem_TG"] = {"receivers": tg["distinct"] - 1, "against_shapes": nshapes, "holds": True, "wall_s": tg["wall_s"]}
    rc = v.finish()
    cov["rule"] = pc.UNIVERSE_RULE + "; C02 checks A.IntersectsX(B), B.IntersectsX(A) and the object-level calls of both receivers against the exact answer"
    cov["exhaustive"] = stride == 1
    cov["samples"] = [{"shape_A": shapes[1234]["s"], "shape_B": shapes[2500]["s"]}]
    vlib.write_evidence(PID, tier, seed, t0, cov, [vlib.A_FLOAT, vlib.TOOLS,
                        "4x4 lattice: the octilinear fragment exhaustively (witness-grid semantics), other slopes as a structured sample (PlanarGeneral)"],
                        len(v.violations))
    return rc


def replay(path):
    rec = json.load(open(path))
    print(rec["what"])
    res = json.loads(vlib.run_harness(["pairone", json.dumps(rec["event"])]))
    print(res)
    if res["got"] != rec["expected_L1"]:
        print("VIOLATION property=%s replay=%s" % (PID, path))
        return 1
    return 0
