"""C02 Intersects is exact planar intersection and symmetric."""
import json, os
import vlib, pairs_common as pc

PID = "C02"


def prepare():
    import universe
    universe.build("quick")


def run(tier, seed, t0):
    nconf, stride = (3, 1) if tier == "quick" else (12, 1)
    v, cov, shapes = pc.run_pairs(PID, tier, seed, "int", nconf, stride)
    rc = v.finish()
    cov["rule"] = pc.UNIVERSE_RULE + "; C02 checks A.IntersectsX(B), B.IntersectsX(A) and the object-level calls of both receivers against the exact answer"
    cov["exhaustive"] = stride == 1
    cov["samples"] = [{"shape_A": shapes[1234]["s"], "shape_B": shapes[2500]["s"]}]
    vlib.write_evidence(PID, tier, seed, t0, cov, [vlib.A_FLOAT, vlib.TOOLS,
                        "octilinear fragment on the 4x4 lattice (witness-grid semantics is exact there); general slopes only through C19's kernel checks"],
                        len(v.violations))
    return rc


def replay(path):
    rec = json.load(open(path))
    print(rec["what"])
    res = json.loads(vlib.run_harness(["pairone", json.dumps(rec["event"])]))
    print(res)
    if res["got"] != rec["expected_L1"]:
        print("VIOLATION property=%s replay=%s" % (PID, path))
        return 1
    return 0
