"""C17 Every constructible object serialises to well-formed GeoJSON, by appending."""
import json, os
import vlib

PID = "C17"
CFG = 'SPECIFICATION Spec\nINVARIANT Emit\nCHECK_DEADLOCK FALSE\n'


def gen():
    return vlib.cached_tlc("c17-objects", "Gen_C17", CFG, workers=1)


def prepare():
    gen()


def run(tier, seed, t0):
    data, meta = gen()
    out = os.path.join(vlib.BUILD, "work", PID)
    os.makedirs(out, exist_ok=True)
    from props import c07
    rows, _ = c07.split(c07.gen()[0])
    summ = json.loads(vlib.run_harness(["c17", data, out, seed, rows]))
    events, mism, r = vlib.judge_trace("Trace_C17", os.path.join(out, "c17.events.ndjson"))
    v = vlib.Verdict(PID)
    for m in mism:
        e = events[m[1] - 1]
        v.violation({"property": PID, "event": {k: e[k] for k in e if k != "out"}, "why": m[2],
                     "what": "%s serialises to %s : %s" % ("%s built via %s" % (json.dumps(e["tree"])[:300], e["via"]) if e["op"] == "ser" else "Parse(%s)" % e["text"], e["output"], m[2])})
    rc = v.finish()
    cov = {
        "states": meta["distinct"] + r.distinct, "transitions": meta["generated"] + r.generated,
        "traces_validated_against_impl": 1, "evaluations": summ["serialisations"] * 28,
        "distinct_nontrivial": summ["serialisations"],
        "rule": "Gen_C17 prints %d constructor-built object trees of all kinds (NewPoint/NewPointZ/NewSimplePoint/NewLineString/NewPolygon(nil "
                "included)/NewRect/NewCircle/NewMulti*/NewGeometryCollection/NewFeatureCollection/NewFeature, nested) with NaN, +Inf, "
                "-Inf and -0 ordinates; every object, and a Feature around it for 16 member texts (objects, whitespace, duplicates, "
                "non-object and invalid texts that must be ignored), is serialised through JSON/String/MarshalJSON/AppendJSON(nil) and "
                "AppendJSON(prefix) for 4 prefixes x 6 spare capacities; each serialisation is a trace event judged by Trace_C17 "
                "(WriterSpec!WellFormed). distinct_nontrivial = distinct (object, members) serialisations" % summ["objects"],
        "samples": [{k: events[10][k] for k in ("tree", "via", "output", "same4", "appendok", "prefixok", "valid")}],
        "parsed_objects_serialised": summ["parsed_objects_serialised"],
        "serialisations_judged_by_tlc": len(events), "mismatches": len(mism),
    }
    vlib.write_evidence(PID, tier, seed, t0, cov, [vlib.TOOLS,
                        "member texts with the reserved keys type/coordinates/geometry/geometries/features are excluded as the property states",
                        "the universe is a fixed list of %d objects (spec/Gen_C17.tla), not an enumeration" % summ["objects"]],
                        len(v.violations))
    return rc


def replay(path):
    rec = json.load(open(path))
    print(rec["what"])
    return 0
