"""C18 Derived ring attributes (convex, clockwise, segment count) are exact."""
import json, os
import vlib

PID = "C18"
GEN_CFG = "CONSTANTS N = %d  K = %d\nSPECIFICATION Spec\nINVARIANTS T4ser T3ser Emit\nCHECK_DEADLOCK FALSE\n"
UNIVERSES = {"quick": [(2, 5), (3, 4)], "thorough": [(2, 7), (3, 5)]}


def gen(tier):
    out = []
    for n, k in UNIVERSES[tier]:
        out.append(vlib.cached_tlc("c18-n%d-k%d" % (n, k), "Gen_C18", GEN_CFG % (n, k), workers=8))
    return out


def prepare():
    gen("quick")


def describe(e):
    return "geometry.Series %s of the %s series %s (encoding %s, orbit map %s, index config %s)" % (
        e["op"], "closed" if e.get("closed", True) else "open", e["ring"], e.get("enc", "as given"), e.get("map"), e.get("index"))


def run(tier, seed, t0):
    gens = gen(tier)
    out = os.path.join(vlib.BUILD, "work", PID)
    os.makedirs(out, exist_ok=True)
    nrandom, nmaps = (8000, 3) if tier == "quick" else (60000, 10)
    summ = json.loads(vlib.run_harness(["c18", ",".join(g[0] for g in gens), out, seed, nrandom, nmaps]))
    events, mism, r = vlib.judge_trace("Trace_C18", os.path.join(out, "c18.events.ndjson"))
    v = vlib.Verdict(PID)
    vlib.classify(v, events, mism, describe)
    rc = v.finish()
    row = json.loads(open(gens[0][0]).readlines()[2000])
    cov = {
        "states": sum(g[1]["distinct"] for g in gens) + r.distinct,
        "transitions": sum(g[1]["generated"] for g in gens) + r.generated,
        "traces_validated_against_impl": 1,
        "evaluations": summ["evaluations"] + summ["recorded"],
        "distinct_nontrivial": sum(g[1]["lines"] for g in gens),
        "rule": "Gen_C18 enumerates every vertex sequence of length 0..K over the (0..N)^2 lattice whose first vertex is "
                "lexicographically minimal, for (N,K) in %s, with L1 convex/clockwise/segments/empty, and checks "
                "SeriesImpl = Series (T4ser) and rotation/closing/reversal invariance of L1 (T3ser) on each; the replayer "
                "evaluates each as closed and open series under 3 index configurations, every rotation, reversal, repeated "
                "closing vertex and an orbit map; distinct_nontrivial = number of distinct generated sequences" % (UNIVERSES[tier],),
        "exhaustive": True,
        "samples": [{"generated_row": {"ring": row[1], "convex": row[2], "clockwise": row[3], "segments_closed": row[4]}},
                    {"recorded_event": events[-3]}, {"recorded_event": events[-1]}],
        "replayed_rows": summ["rows"], "replay_mismatches": summ["mismatches"], "recorded_events": summ["recorded"],
        "events_judged_by_tlc": len(events), "mismatches_vs_L1": len(mism), "known_finding_hits": v.known_hits,
    }
    vlib.write_evidence(PID, tier, seed, t0, cov, [vlib.A_FLOAT, vlib.TOOLS,
                        "convexity is defined on the cyclic vertex sequence with consecutive repetitions collapsed (a repeated closing vertex being one such repetition); rings of fewer than 3 points assert nothing about Convex/Clockwise"],
                        len(v.violations))
    return rc


def replay(path):
    rec = json.load(open(path))
    print(json.dumps(rec["event"]))
    out = os.path.join(vlib.BUILD, "work", PID + "-replay")
    os.makedirs(out, exist_ok=True)
    e = dict(rec["event"])
    res = json.loads(vlib.run_harness(["c18one", json.dumps(e)]))
    print(res)
    if res["got"] != rec["expected_L1"]:
        print("VIOLATION property=%s replay=%s" % (PID, path))
        return 1
    return 0
