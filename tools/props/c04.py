"""C04 Compressed segment indexes are exact accelerators."""
import json, os
import vlib

PID = "C04"
QCFG = ('CONSTANTS MaxItems = 2  MaxDepth = 2  W = 8  MaxN = %d  B = 3\nCONSTANT Alphabet <- Alpha\nSPECIFICATION QSpec\n'
        'INVARIANTS EachOnce Housed DepthBound Capacity SearchExact CompressExact\nCHECK_DEADLOCK FALSE\n')
RCFG = ('CONSTANTS MaxEntries = 2  MaxN = %d  B = 3\nCONSTANT Alphabet <- Alpha\nSPECIFICATION RSpec\n'
        'INVARIANTS EachOnce Covering NodeCap SearchExact CompressExact\nCHECK_DEADLOCK FALSE\n')


def t5(tier):
    n = 4
    q = vlib.cached_tlc("t5-quadtree-%d" % n, "MC_QuadTree", QCFG % n, workers=8, timeout=3000)
    r = vlib.cached_tlc("t5-rtree-%d" % n, "MC_RTree", RCFG % n, workers=8, timeout=3000)
    return q, r


def t5_deep(seed):
    """thorough tier: random insertion sequences of up to 12 rectangles (deeper trees than the exhaustive 4) by tlc -simulate"""
    out = {}
    for name, mod, cfg in (("quadtree", "MC_QuadTree", QCFG.replace("MaxDepth = 2", "MaxDepth = 3") % 12), ("rtree", "MC_RTree", RCFG.replace("MaxEntries = 2", "MaxEntries = 3") % 12)):
        r = vlib.run_tlc(mod, cfg, workers=8, timeout=400, simulate="num=30", depth=14, seed=seed, want_lines=False)
        if r.violated or r.error:
            raise vlib.Inconclusive("T5 (%s machine, simulation to 12 inserts) is violated on the model: %s\n%s" % (name, r.violated or r.error, r.log[-1500:]))
        out[name] = {"states_checked": r.generated, "traces": r.distinct, "stopped_by_time_limit": r.timed_out}
    return out


def prepare():
    t5("quick")


def describe(e):
    return "Series.Search(%s) kind=%s MinPoints=%s moved by (%s,%s) stop=%s reported %d hits, %d callbacks after stop" % (
        e.get("q"), e.get("kind"), e.get("minpts"), e.get("dx"), e.get("dy"), e.get("stop"), len(e.get("hits", [])), e.get("after", 0))


def run(tier, seed, t0):
    (qd, qm), (rd, rm) = t5(tier)
    deep = t5_deep(seed) if tier == "thorough" else None
    out = os.path.join(vlib.BUILD, "work", PID)
    os.makedirs(out, exist_ok=True)
    summ = json.loads(vlib.run_harness(["c04", out, seed, tier], timeout=3000))
    events, mism, r = vlib.judge_trace("Trace_C04", os.path.join(out, "c04.events.ndjson"), timeout=3000)
    v = vlib.Verdict(PID)
    for m in mism:
        e = dict(events[m[1] - 1])
        ser = events[e["sref"] - 1] if e.get("op") == "search" else e
        rec = {"property": PID, "event": e, "expected_L1": {"number_of_segments_meeting_the_query": m[2]}, "what": describe(e),
               "series": {"layout": ser.get("layout"), "closed": ser.get("closed"), "points": len(ser.get("pts", [])),
                          "pts": ser.get("pts") if len(ser.get("pts", [])) <= 400 else "omitted (%d points, layout %s, seed %d)" % (len(ser["pts"]), ser.get("layout"), seed)}}
        if len(e.get("hits", [])) > 50:
            rec["event"]["hits"] = e["hits"][:50] + ["..."]
        v.violation(rec)
    # Move by inexact offsets: the moved indexed series against an index-free series of the same moved points (Trace_C04Move)
    mpath = os.path.join(out, "c04.move.ndjson")
    moved_events = 0
    if os.path.exists(mpath) and os.path.getsize(mpath) > 0:
        mev, mmism, mr = vlib.judge_trace("Trace_C04Move", mpath, timeout=3000)
        moved_events = len(mev)
        for m in mmism:
            e = mev[m[1] - 1]
            v.violation({"property": PID, "event": e, "what": "after Move(%s, %s) the %s-indexed series of %d points (layout %s) reports the segments %s for the query %s, an index-free series of the "
                         "same moved points reports %s" % (e["dx"], e["dy"], e["kind"], e["points"], e["layout"], str(e["indexed"])[:200], e["q"], str(e["plain"])[:200])})
    # model-conformance diagnostic at the real constants: callback ORDER predicted by the TLA+ machines
    drift = {}
    for mod, f, cfg in (("Trace_QT", "c04.qt.ndjson", "CONSTANTS MaxItems = 32  MaxDepth = 16  W = 8  MaxN = 0  B = 256  Alphabet = {}\nSPECIFICATION QTSpec\nINVARIANT Judge\nCHECK_DEADLOCK FALSE\n"),
                        ("Trace_RT", "c04.rt.ndjson", "CONSTANTS MaxEntries = 16  MaxN = 0  B = 256  Alphabet = {}\nSPECIFICATION RTSpec\nINVARIANT Judge\nCHECK_DEADLOCK FALSE\n")):
        oev, omism, orr = vlib.judge_trace(mod, os.path.join(out, f), cfg=cfg, timeout=3000)
        drift[mod] = {"searches": len(oev), "callback_order_differs_from_model": len(omism), "states": orr.distinct}
        for m in omism[:3]:
            vlib.log("model drift (%s): real callback order %s, model %s" % (mod, oev[m[1] - 1]["hits"][:20], m[2][:20]))
    rc = v.finish()
    st = summ["index_stats"]
    searches = [e for e in events if e["op"] == "search"]
    if not searches:
        raise vlib.Inconclusive("no search recorded")
    sample = dict(searches[len(searches) // 3])
    sample["hits"] = sample["hits"][:12]
    cov = {
        "states": qm["distinct"] + rm["distinct"] + r.distinct,
        "transitions": qm["generated"] + rm["generated"] + r.generated,
        "traces_validated_against_impl": 1, "moved_by_inexact_offsets_events": moved_events,
        "evaluations": summ["searches"],
        "distinct_nontrivial": len({(e["sref"], tuple(e["q"]), e["stop"], e["kind"], e["minpts"], e["dx"], e["dy"]) for e in searches}),
        "rule": "model level (T5): TLC explores every insertion sequence of <= 4 rectangles from a 24-rectangle alphabet (all position "
                "classes relative to the midlines) in the QuadTree machine (MaxItems 2, MaxDepth 2, radix 3) and the RTree machine "
                "(MaxEntries 2) with invariants each-item-once, housed/covering, capacity, Search = SearchSem, compressed search = "
                "search. Code level: %d series (sizes 0..%d; layouts uniform, clustered, collinear, duplicate, zero-extent, dyadic "
                "grid on the midlines, zigzag across the root midline, long/short mix, deep corner, non-lattice floats as ranks) x "
                "index kinds x MinPoints {1,n,n+1,64} x query rectangles (vertices, infinite strips, bbox border, midlines, whole "
                "plane) x stop positions x Move; every recorded Search is judged by TLC against SearchSem; distinct_nontrivial = "
                "distinct (series, query, stop, kind, threshold, move) searches" % (summ["series"], max(len(e["pts"]) for e in events if e["op"] == "series")),
        "samples": [{"recorded_search": sample, "of_series_with_points": len(events[sample["sref"] - 1]["pts"])}],
        "series_recorded": summ["series"], "searches_recorded": summ["searches"], "callbacks": summ["callbacks"],
        "events_judged_by_tlc": len(events), "mismatches": len(mism),
        "index_structures_reached": st,
        "t5_quadtree": qm, "t5_rtree": rm, "t5_simulation_to_12_inserts": deep,
        "index_machines_at_real_constants": drift,
    }
    vlib.write_evidence(PID, tier, seed, t0, cov, [vlib.TOOLS,
                        "the search semantics only compares coordinates, so non-lattice floats and infinite query bounds are logged as ranks (order embedding)",
                        "the index models are explored at small constants (MaxItems 2, MaxDepth 2, MaxEntries 2, byte radix 3); the real constants are reached only through recorded executions",
                        "decoded index bytes are used as a coverage meter only (index_structures_reached), never for a verdict",
                        "index_machines_at_real_constants: TLC rebuilds the QuadTree (MaxItems 32, MaxDepth 16) and RTree (MaxEntries 16) model trees for recorded series of 5..257 points and compares the model's compressed-search callback ORDER with the real one; a difference is model drift (diagnostic), not a violation"],
                        len(v.violations))
    return rc


def replay(path):
    rec = json.load(open(path))
    print(json.dumps(rec)[:1500])
    print("re-run: VERIF_SEED=<seed of the failing run> ./check C04 quick (the recorder is deterministic in the seed)")
    return 0
