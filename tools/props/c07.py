"""C07 Parse decodes exactly what the document says, or rejects it."""
import json, os
import vlib

PID = "C07"
CFG = 'CONSTANTS Mode = "c07"  MaxMut = 1\nSPECIFICATION Spec\nINVARIANTS BaseAccepted T7a Emit\nCHECK_DEADLOCK FALSE\n'


def gen(aliens=False):
    """aliens=True (C07 only): also the documents with members named like another type's required member"""
    if aliens:
        return vlib.cached_tlc("docs-aliens", "Gen_Doc", CFG.replace('"c07"', '"c07a"'), workers=8)
    return vlib.cached_tlc("docs", "Gen_Doc", CFG, workers=8)


CHAIN_CFG = 'CONSTANTS Mode = "%s"  MaxMut = 3\nSPECIFICATION Spec\nINVARIANTS Emit\nCHECK_DEADLOCK FALSE\n'


def gen_chains(mode, seed):
    """thorough tier: chains of 2-3 mutations sampled by `tlc -simulate` for a fixed time (the sample depends on the seed)."""
    return vlib.cached_tlc("docs-chains-%s-%d" % (mode, seed), "Gen_Doc", CHAIN_CFG % mode, workers=4, timeout=40,
                           simulate="num=1000000", depth=5, seed=seed)


def merge_rows(paths, out, limit=None, accepted_only=False):
    """concatenate DOC rows of several generator outputs, dropping duplicates of the same document"""
    seen = set()
    n = 0
    with open(out, "w") as g:
        for i, pth in enumerate(paths):
            for line in open(pth):
                if limit is not None and i > 0 and n >= limit:
                    break
                if accepted_only and i > 0 and '"rej"' in line and 'true,"ok"]' not in line:
                    continue
                if not line.startswith('["DOC"'):
                    continue
                doc = json.dumps(json.loads(line)[3])
                if doc in seen:
                    continue
                seen.add(doc)
                g.write(line)
                n += 1
    return n


LEX_CFG = 'CONSTANTS MaxW = 2  MaxD = %d  MaxLen = %d  Ctxs = %s\nSPECIFICATION Spec\nVIEW view\nINVARIANTS CompleteOK Emit\nCHECK_DEADLOCK FALSE\n'


def gen_lex():
    """one text per transition of the JSON automaton (JsonLex) in five host contexts"""
    return vlib.cached_tlc("lex", "Gen_Lex", LEX_CFG % (2, 40, "{1,2,3,4,5}"), workers=1)


def gen_lex_walks(seed):
    """thorough tier: random walks through the automaton (texts of up to 60 atoms, containers nested up to 4 deep)"""
    return vlib.cached_tlc("lex-walks-%d" % seed, "Gen_Lex", LEX_CFG % (4, 60, "{1,2,3,4,5}"), workers=4, timeout=40, simulate="num=1000000", depth=61, seed=seed)


def gen_lex_numbers(tier):
    """random walks through the number part of the automaton in coordinate position: long spellings (up to 30 atoms), legal or broken by
    one atom; a fixed seed in the quick tier so that the cache is reused"""
    return vlib.cached_tlc("lex-numbers-%s" % tier, "Gen_Lex", LEX_CFG % (0, 30, "{6,7}"), workers=2, timeout=8 if tier == "quick" else 40,
                           simulate="num=1000000", depth=31, seed=7)


def run_lex(pid, v, tier, seed, out):
    """byte level: texts generated from the state graph of the JSON automaton; acceptance facts belong to C07, round-trip facts to C06"""
    ldata, lmeta = gen_lex()
    lsum = json.loads(vlib.run_harness(["lex", ldata, out, seed, 3 if tier == "quick" else 12]))
    lstates, lrows = lmeta["distinct"], lsum["rows"]
    evs = [json.loads(l) for l in open(os.path.join(out, "lex.events.ndjson"))]
    extra = [("number_spelling_rows", gen_lex_numbers(tier)[0], 3)]
    if tier == "thorough":
        extra.append(("random_walk_rows", gen_lex_walks(seed)[0], 2))
    for name, wdata, nr in extra:
        wsum = json.loads(vlib.run_harness(["lex", wdata, out, seed, nr]))
        evs += [json.loads(l) for l in open(os.path.join(out, "lex.events.ndjson"))]
        for k in ("evaluations", "mismatches", "l1_vs_encoding_json_drift", "rows"):
            lsum[k] += wsum[k]
        for k, n in wsum["by_class"].items():
            lsum["by_class"][k] = lsum["by_class"].get(k, 0) + n
        lsum[name] = wsum["rows"]
        lsum["drift_examples"] = (lsum["drift_examples"] or []) + (wsum["drift_examples"] or [])
    if lsum["l1_vs_encoding_json_drift"]:
        raise vlib.Inconclusive("JsonLex and encoding/json.Valid disagree on %d texts, e.g. %s" % (lsum["l1_vs_encoding_json_drift"], lsum["drift_examples"]))
    n = 0
    for e in evs:
        if e["prop"] != pid:
            continue
        n += 1
        v.violation({"property": pid, "event": e, "expected_L1": e["exp"],
                     "what": "Parse(%s) [%s, automaton context %d]: %s; %s" % (e["text"], e["host"], e["ctx"], e["got"], e["why"])})
    lsum["mismatches_this_property"] = n
    return lsum, lstates, lrows


LEX_RULE = ("JsonLex: pushdown automaton of RFC 8259 over 30 byte classes; TLC visits every automaton state reachable in five host "
            "contexts (whole text, last / first member of the root object, coordinate, property / member of the geometry; containers "
            "nested up to 2 above the context; witnesses told apart by 0, 1, >= 2 whitespace bytes inside the fragment's containers) and "
            "emits witness.atom.completion for every state and every atom - one text per transition, legal or not - with the "
            "automaton's verdict on host + fragment (TLC also checks that every completion is valid; strings are completed with a "
            "space before the closing quote). Each text is spelled with several representative bytes per class (control bytes, "
            "multi-byte and invalid UTF-8, every escape) and parsed under 2 option sets. C07: not valid JSON => error and no object; "
            "valid => accepted in member contexts; a single number as coordinate => accepted with x bit-identical to "
            "strconv.ParseFloat (also for random number spellings of up to 30 atoms from a walk through the number states); a whole text without \"type\" => rejected. C06: the output of an accepted text is valid JSON, is "
            "accepted again and carries every foreign member with its value (strings exactly, numbers by value). The automaton is "
            "cross-checked against encoding/json.Valid on every text (any disagreement makes the run inconclusive).")


def lex_cov(lsum, lstates, lrows):
    return {"rule": LEX_RULE, "automaton_states": lstates, "texts_rows": lrows, "evaluations": lsum["evaluations"],
            "mismatches_this_property": lsum["mismatches_this_property"], "by_context_validity_expectation": lsum["by_class"],
            "random_walk_rows": lsum.get("random_walk_rows", 0), "number_spelling_rows": lsum.get("number_spelling_rows", 0)}


def prepare():
    gen()
    gen(aliens=True)
    gen_lex()
    gen_lex_numbers("quick")


def split(data):
    rows, devs = data + ".rows", []
    with open(data) as f, open(rows, "w") as g:
        for line in f:
            if line.startswith('["DEV"'):
                devs.append(json.loads(line))
            else:
                g.write(line)
    return rows, devs


def run(tier, seed, t0):
    data, meta = gen(aliens=True)
    rows, devs = split(data)
    if tier == "thorough":
        cdata, cmeta = gen_chains("c07", seed)
        nrows = merge_rows([rows, cdata], rows + ".thorough")
        rows = rows + ".thorough"
        meta = dict(meta, distinct=meta["distinct"] + cmeta["distinct"], generated=meta["generated"] + cmeta["generated"], lines=nrows + len(devs))
    v = vlib.Verdict(PID)
    for d in devs:  # model-level deviations (L2 vs L1) must all be listed known findings
        if v.find_known(d[1]) is None:
            raise vlib.Inconclusive("model-level deviation at %s is not in KNOWN_FINDINGS.jsonl: %s" % (d[1], json.dumps(d)[:300]))
    out = os.path.join(vlib.BUILD, "work", PID)
    os.makedirs(out, exist_ok=True)
    nrender = 6 if tier == "quick" else 24
    summ = json.loads(vlib.run_harness(["c07", rows, out, seed, nrender]))
    events = [json.loads(l) for l in open(os.path.join(out, "c07.events.ndjson"))]
    for e in events:
        rec = {"property": PID, "event": e, "expected_L1": e["exp"], "predicted_L2": "acc" if e["l2acc"] else "rej", "site": e["l2site"],
               "what": "Parse(%s) [%s]: %s, the document must be %s" % (e["text"], e["variant"], e["what"], {"acc": "accepted", "rej": "rejected"}[e["exp"]])}
        k = v.find_known(e["l2site"])
        if k is not None and e["what"] == "rejected" and not e["l2acc"] and e["variant"] in ("plain", "surrounding-whitespace"):
            v.known_finding(k["id"], rec)
        else:
            v.violation(rec)
    lsum, lstates, lrows = run_lex(PID, v, tier, seed, out)
    rc = v.finish()
    sample = json.loads(open(rows).readlines()[1000])
    nbase = len({json.loads(l)[1] for l in open(rows) if l.startswith('["DOC"')})
    cov = {
        "states": meta["distinct"], "transitions": meta["generated"], "traces_validated_against_impl": 0,
        "evaluations": summ["evaluations"] + lsum["evaluations"], "distinct_nontrivial": meta["lines"] - len(devs) + lrows,
        "rule": "Gen_Doc: %d well-formed base documents of the nine types (2-4D and mixed positions, multi-hole 3D polygons, perfect and almost perfect rectangles, "
                "foreign/duplicate/reordered/escaped/empty-key members, nesting) and every single structural mutation of each (any sub-value replaced by one of 9 values of other "
                "JSON kinds, any member/element deleted, duplicated before/after, moved to the front): %d documents with the "
                "three-valued L1 verdict, the decoded tree and the L2 prediction; T7a compares ParserImpl with GeoDoc on all of "
                "them. Each document is rendered %d times (3 number tables incl. 17-digit, 1e21, 5e-324; exponent/decimal spellings; "
                "whitespace; escaped keys; surrounding whitespace; trailing garbage; truncation; leading/trailing characters that are Unicode but not JSON whitespace) and parsed under 4 option sets; "
                "accept/reject, error xor object, type/nesting/child order and every x,y (bit-for-bit) are compared. "
                "distinct_nontrivial = distinct documents" % (nbase, meta["lines"] - len(devs), nrender),
        "exhaustive": True,
        "samples": [{"generated_doc": {"ast": sample[3], "verdict": sample[4], "decode": sample[5], "L2": sample[6:8]}}],
        "by_expected_verdict": summ["by_expected"], "mismatches": summ["mismatches"], "code_vs_L2_transcription_drift": summ["l2_drift"],
        "model_level_deviations_L2_vs_L1": len(devs), "known_finding_hits": v.known_hits,
        "byte_level": lex_cov(lsum, lstates, lrows),
    }
    vlib.write_evidence(PID, tier, seed, t0, cov, [vlib.TOOLS,
                        "byte level: texts over 30 byte classes with containers nested <= 2 (thorough: random walks to 60 atoms, <= 4) above five host contexts; not arbitrary byte strings",
                        "documents in neither list of the property (5-number positions, null ordinates, null geometry, non-array nested elements) assert nothing",
                        "the Circle convention (properties.type = Circle) is excluded here (C13/C08)"],
                        len(v.violations))
    return rc


def replay(path):
    rec = json.load(open(path))
    print(rec["what"])
    return 0
