"""C08 Parse options never change what an object means."""
import json, os
import vlib
from props import c07

PID = "C08"
CFG = 'CONSTANTS Mode = "c08"  MaxMut = 1\nSPECIFICATION Spec\nINVARIANTS BaseAccepted Emit\nCHECK_DEADLOCK FALSE\n'


def gen():
    return vlib.cached_tlc("docs-c08", "Gen_Doc", CFG, workers=8)


def prepare():
    gen()


def run(tier, seed, t0):
    data, meta = gen()
    rows, devs = c07.split(data)
    if tier == "thorough":
        cdata, cmeta = c07.gen_chains("c08", seed)
        c07.merge_rows([rows, cdata], rows + ".thorough", limit=40000, accepted_only=True)
        rows = rows + ".thorough"
        meta = dict(meta, distinct=meta["distinct"] + cmeta["distinct"], generated=meta["generated"] + cmeta["generated"])
    out = os.path.join(vlib.BUILD, "work", PID)
    os.makedirs(out, exist_ok=True)
    nrender = 1 if tier == "quick" else 4
    summ = json.loads(vlib.run_harness(["c08", rows, out, seed, nrender], timeout=3000))
    events, mism, r = vlib.judge_trace("Trace_C08", os.path.join(out, "c08.events.ndjson"), timeout=3000, split=True)
    v = vlib.Verdict(PID)
    for m in mism:
        e = events[m[1] - 1]
        base, bad = e["runs"][0], e["runs"][m[2] - 1]
        diff = [k for k in ("accepted", "json", "obs", "ans", "circle", "valid") if base[k] != bad[k]]
        v.violation({"property": PID, "text": e["text"], "default_options": base, "options": bad, "fields_that_differ": diff,
                     "all_positions_valid_L1": m[3],
                     "what": "Parse(%s) under [%s] (%s option) differs from the default options in %s" % (e["text"], bad["name"], bad["class"], diff)})
    rc = v.finish()
    cov = {
        "states": meta["distinct"] + r.distinct, "transitions": meta["generated"] + r.generated,
        "traces_validated_against_impl": 1, "evaluations": summ["parses"], "distinct_nontrivial": len(events),
        "rule": "the Gen_Doc universe in mode c08 (the core documents of C07 plus 21 with out-of-range coordinates in points, lines, holes, "
                "Multi*, nested collections and Features, the Circle convention in m/km/3D/nested form, perfect rectangles with and "
                "without members, collections with empty children; every single structural mutation of each; five large never-mutated documents - a 330-point line, 200-segment polygons, 70-feature and 66-geometry collections - that reach the segment and child indexes): every document is parsed under %d option sets (7 index "
                "configurations, 3 representation options, 2 RequireValid sets) and one trace event per document carries the "
                "observations (accepted, JSON, Rect/Empty/Valid/NumPoints, predicate answers against probe objects incl. a Circle and, for large documents, a point on every segment, "
                "Circle recognition); Trace_C08 checks OptionsSpec!Transparent, whose RequireValid clause uses the L1 validity of the "
                "document (ValidDoc). distinct_nontrivial = distinct documents" % summ["option_sets"],
        "samples": [{"text": events[len(events) // 2]["text"], "runs": [{k: rr[k] for k in ("name", "class", "accepted", "circle")} for rr in events[len(events) // 2]["runs"]]}],
        "documents": len(events), "accepted_by_default_options": summ["accepted_by_default_options"], "mismatches": len(mism),
    }
    vlib.write_evidence(PID, tier, seed, t0, cov, [vlib.TOOLS,
                        "thresholds 0,1,2..6,64 are used for both index options (documents have at most 5 children / 6 points, so below, at and above the count all occur)",
                        "predicate answers are compared run against run (relational), on a fixed probe set built from the same number table"],
                        len(v.violations))
    return rc


def replay(path):
    rec = json.load(open(path))
    print(rec["what"])
    return 0
