"""C19 Segment-level kernels are exact and symmetric."""
import json, os, time
import vlib

PID = "C19"
GEN_CFG = "CONSTANTS N = %d\nSPECIFICATION Spec\nINVARIANTS T1 T1sym T1big Emit\nCHECK_DEADLOCK FALSE\n"


def describe(e):
    return "geometry.Segment %s on lattice operands %s (orbit map %s)" % (
        {"ray": "Raycast", "cpt": "ContainsPoint", "col": "CollinearPoint", "int": "IntersectsSegment",
         "con": "ContainsSegment", "rect": "Rect"}.get(e["op"], e["op"]),
        {k: e[k] for k in "abcdp" if k in e}, e.get("map"))


def gen(n=4):
    return vlib.cached_tlc("c19-n%d" % n, "Gen_C19", GEN_CFG % n, workers=8)


def prepare():
    gen()


def run(tier, seed, t0):
    data, meta = gen(4 if tier == "quick" else 5)   # 5x5 lattice (625 segments); thorough: 6x6 (1 296 segments, slopes k/5)
    out = os.path.join(vlib.BUILD, "work", PID)
    os.makedirs(out, exist_ok=True)
    nrandom, nmaps = (20000, 3) if tier == "quick" else (150000, 12)
    summ = json.loads(vlib.run_harness(["c19", data, out, seed, nrandom, nmaps]))
    trace = os.path.join(out, "c19.events.ndjson")
    events, mism, r = vlib.judge_trace("Trace_C19", trace)
    v = vlib.Verdict(PID)
    vlib.classify(v, events, mism, describe)
    rc = v.finish()
    npts = {625: 25, 1296: 36}.get(meta["lines"], 25)
    sample_rows = [json.loads(l) for l in open(data).readlines()[37:38]]
    cov = {
        "states": meta["distinct"] + r.distinct,
        "transitions": meta["generated"] + r.generated,
        "traces_validated_against_impl": 1,
        "evaluations": summ["evaluations"] + summ["recorded"],
        "distinct_nontrivial": meta["lines"] * meta["lines"] + meta["lines"] * npts,
        "rule": "Gen_C19 enumerates every ordered pair of segments (degenerate included) and every (segment, point) "
                "triple on the 5x5 lattice (thorough tier: 6x6, 1 296 segments) with its L1 answers, and checks KernelImpl = Kernel (T1) on all of them; the "
                "replayer evaluates each under %d orbit maps; distinct_nontrivial counts distinct lattice (segment, "
                "segment) pairs plus (segment, point) triples; a further seeded random trace (|coord| <= 1000, collinear "
                "carriers, shared endpoints, near-collinear) is recorded from the real code and judged by Trace_C19" % summ["maps"],
        "exhaustive": True,
        "samples": [
            {"generated_row": {"a": sample_rows[0][1], "b": sample_rows[0][2], "raycast_codes_vs_25_points": sample_rows[0][3],
                               "segrect": sample_rows[0][7]}},
            {"recorded_event": events[-1]},
            {"recorded_event": events[len(events) // 2]},
        ],
        "replayed_rows": summ["rows"], "orbit_maps": summ["maps"], "replay_mismatches": summ["mismatches"],
        "recorded_events": summ["recorded"], "events_judged_by_tlc": len(events),
        "mismatches_vs_L1": len(mism), "known_finding_hits": v.known_hits,
        "generator_cached": meta.get("cached", False),
        "spec_theorems": "T1 (KernelImpl = Kernel on all 625x625 pairs and 625x25 triples; thorough 1296x1296 and 1296x36), T1sym (SegInter symmetric, contains => intersects)",
    }
    vlib.write_evidence(PID, tier, seed, t0, cov, [vlib.A_FLOAT, vlib.TOOLS,
                        "small scope: 5x5 (thorough 6x6) lattice exhaustively; larger coordinates only through the orbit maps and the random trace"],
                        len(v.violations))
    return rc


def replay(path):
    rec = json.load(open(path))
    out = os.path.join(vlib.BUILD, "work", PID + "-replay")
    os.makedirs(out, exist_ok=True)
    e = dict(rec["event"])
    e.pop("got", None)
    res = vlib.run_harness(["c19one", json.dumps(e)])
    print(res.strip())
    got = json.loads(res)["got"]
    if got != rec["expected_L1"]:
        print("VIOLATION property=%s replay=%s" % (PID, path))
        return 1
    return 0
