"""C12 Predicates are invariant under re-encoding and rigid lattice symmetries."""
import json, os
import vlib, pairs_common as pc

PID = "C12"


def prepare():
    import universe
    universe.build("quick")
    universe.build_general("quick")
    universe.build_holes("quick")


def run(tier, seed, t0):
    nconf, stride = (10, 24) if tier == "quick" else (16, 3)
    v, cov, shapes = pc.run_pairs(PID, tier, seed, "int,con", nconf, stride, only_nonuniform=True)
    v = pc.extra_universes(PID, tier, seed, "int,con", nconf, stride, v, cov, only_nonuniform=True)
    rc = v.finish()
    cov["rule"] = pc.UNIVERSE_RULE + "; C12 compares, for every pair, the real answers over all its configurations (8 lattice symmetries, translations incl. Move, power-of-two scalings, start vertex, direction, closing vertex): a pair whose answers are not all equal is a violation unless every deviating configuration is a listed known finding that agrees with the L2 transcription (those algorithms are encoding-sensitive)"
    cov["exhaustive"] = stride == 1
    cov["samples"] = [{"shape_A": shapes[1234]["s"], "shape_B": shapes[2500]["s"]}]
    vlib.write_evidence(PID, tier, seed, t0, cov, [vlib.A_FLOAT, vlib.TOOLS,
                        "4x4 lattice: the octilinear fragment exhaustively (witness-grid semantics), other slopes as a structured sample (PlanarGeneral)"],
                        len(v.violations))
    return rc


def replay(path):
    rec = json.load(open(path))
    print(rec["what"])
    res = json.loads(vlib.run_harness(["pairone", json.dumps(rec["event"])]))
    print(res)
    if res["got"] != rec["expected_L1"]:
        print("VIOLATION property=%s replay=%s" % (PID, path))
        return 1
    return 0
