"""C11 Bounding rectangle, centre and validity are exact functions of the coordinates."""
import json, os
import vlib

PID = "C11"
CFG = 'CONSTANTS KFull = %d  KSub = %d\nSPECIFICATION Spec\nINVARIANTS T4obj Emit\nCHECK_DEADLOCK FALSE\n'
BOUNDS = {"quick": (2, 4), "thorough": (3, 5)}


def gen(tier):
    kf, ks = BOUNDS[tier]
    return vlib.cached_tlc("c11-%d-%d" % (kf, ks), "Gen_C11", CFG % (kf, ks), workers=8, timeout=2400)


def prepare():
    gen("quick")


def describe(e):
    return "%s() of the object %s built via %s" % (e["op"], json.dumps(e["tree"])[:400], e.get("via"))


def run(tier, seed, t0):
    data, meta = gen(tier)
    out = os.path.join(vlib.BUILD, "work", PID)
    os.makedirs(out, exist_ok=True)
    nrandom = 3000 if tier == "quick" else 30000
    # the generator also prints model-level deviations (L2 vs L1); they must all be listed known findings
    v = vlib.Verdict(PID)
    devs = 0
    with open(data) as f, open(data + ".rows", "w") as g:
        for line in f:
            if line.startswith('["DEV"'):
                devs += 1
                d = json.loads(line)
                if v.find_known(d[2]) is None:
                    raise vlib.Inconclusive("model-level deviation at %s not in KNOWN_FINDINGS.jsonl (spec and findings file out of sync): %s" % (d[2], line[:300]))
            else:
                g.write(line)
    summ = json.loads(vlib.run_harness(["c11", data + ".rows", out, seed, nrandom]))
    events, mism, r = vlib.judge_trace("Trace_C11", os.path.join(out, "c11.events.ndjson"))
    # NumPoints() is specified (Objects!NumPointsObj) and observed, but C11's statement is about Rect / Center / Valid / Empty: deviations of
    # the count are reported in the evidence, not alarmed (the count of a collection as the sum of its children's is C10's, checked there)
    np_dev = [m for m in mism if events[m[1] - 1]["op"] == "npoints"]
    mism = [m for m in mism if events[m[1] - 1]["op"] != "npoints"]
    vlib.classify(v, events, mism, describe)
    for l in open(os.path.join(out, "c11.float.ndjson")):
        e = json.loads(l)
        if e["kind"].startswith("Circle"):
            v.violation({"property": PID, "event": e, "what": "%s centred at %s: Rect() = %s, Center() = %s; the tight box of the positions of its polygon approximation is %s" % (
                e["kind"], e["points"][0], e["rect"], e["center"], e["exact_center"])})
            continue
        v.violation({"property": PID, "event": e, "what": "%s over the positions %s: Rect() = %s, Center() = %s; the tight box is (min, max) of the values and its "
                     "midpoint, rounded to the nearest float64, is %s" % (e["kind"], e["points"], e["rect"], e["center"], e["exact_center"])})
    rc = v.finish()
    row = json.loads(open(data + ".rows").readlines()[4321])
    cov = {
        "states": meta["distinct"] + r.distinct,
        "transitions": meta["generated"] + r.generated,
        "traces_validated_against_impl": 1,
        "evaluations": summ["evaluations"] + summ["recorded"],
        "distinct_nontrivial": meta["lines"] - devs,
        "rule": "Gen_C11 enumerates every position sequence of length <= %d over 5x5 values straddling the validity limits "
                "(-181,-180,7,180,181 x -91,-90,3,90,91) and of length <= %d over a 3x3 sub-alphabet, and turns each into 17 object "
                "trees of all kinds (closed/unclosed/holed polygons, Rect, Multi*, single-child and nested collections, empties mixed "
                "with non-empties, Features); L1 Empty/Rect/Center/Valid/NumPoints are printed and ObjectsImpl is compared with "
                "Objects (T4obj). distinct_nontrivial = distinct generated object trees. Each tree is built through the constructors "
                "under 3 index configurations and through Parse of an independently rendered text under 4 option sets (also with a loose bbox "
                "member on every object). Non-finite ordinates (NaN via constructors and null ordinates, +-Inf): Empty / Valid / NumPoints. "
                "Decimal coordinates (1-15 decimals, sums that cancel): Rect() is (min, max) and Center() the float64 nearest to the exact "
                "midpoint (rational arithmetic)" % BOUNDS[tier],
        "exhaustive": True,
        "samples": [{"generated_row": {"tree": row[1], "empty": row[2], "rect": row[3], "center_x2": row[4], "valid": row[5], "npoints": row[6]}},
                    {"recorded_event": events[-1]}],
        "decimal_coordinate_cases": summ["float_cases"], "decimal_coordinate_mismatches": summ["float_mismatches"],
        "numpoints_deviations_outside_the_statement": len(np_dev),
        "replayed_rows": summ["rows"], "objects_also_built_via_parse": summ["parsed_ok"], "replay_mismatches": summ["mismatches"],
        "events_judged_by_tlc": len(events), "mismatches_vs_L1": len(mism), "model_level_deviations_L2_vs_L1": devs,
        "known_finding_hits": v.known_hits,
    }
    vlib.write_evidence(PID, tier, seed, t0, cov, [vlib.TOOLS,
                        "coordinates are integer degrees (exact in float64); Center is compared as 2*centre",
                        "polygon holes are generated inside the exterior's bounding box (GeoJSON requires holes inside the exterior); Rect/Center are not asserted for empty objects"],
                        len(v.violations))
    return rc


def replay(path):
    rec = json.load(open(path))
    e = rec["event"]
    res = json.loads(vlib.run_harness(["c11one", json.dumps(e)]))
    print(json.dumps(e)[:500], "->", res)
    if res["got"] != rec["expected_L1"]:
        print("VIOLATION property=%s replay=%s" % (PID, path))
        return 1
    return 0
