"""C13 Circle objects mean 'within great-circle distance of the centre' (claimed in part, DESIGN.md section 6)."""
import json, os
import vlib

PID = "C13"
CFG = 'CONSTANT NP = %d\nSPECIFICATION Spec\nINVARIANTS %s Emit\nCHECK_DEADLOCK FALSE\n'


def gen():
    t10 = vlib.cached_tlc("circle-t10", "Gen_Circle", CFG % (24, "T10"), workers=8)
    rows = vlib.cached_tlc("circle-720", "Gen_Circle", CFG % (720, ""), workers=8)
    return t10, rows


def prepare():
    gen()


def run(tier, seed, t0):
    (td, tm), (data, meta) = gen()
    out = os.path.join(vlib.BUILD, "work", PID)
    os.makedirs(out, exist_ok=True)
    summ = json.loads(vlib.run_harness(["c13", data, out, seed, tier], timeout=3000))
    events, mism, r = vlib.judge_trace("Trace_C13", os.path.join(out, "c13.events.ndjson"), cfg="CONSTANT NP = 720\nSPECIFICATION TSpec\nINVARIANT Judge\nCHECK_DEADLOCK FALSE\n")
    v = vlib.Verdict(PID)
    dist_drift = 0
    for m in mism:
        e = events[m[1] - 1]
        if e["op"] == "dist":   # Object.Distance is not part of C13's statement: a deviation from the lattice distance is reported, not alarmed
            dist_drift += 1
            continue
        v.violation({"property": PID, "event": e, "what": "circle event %s: %s" % (e["op"], json.dumps(e)[:500])})
    rc = v.finish()
    cov = {
        "object_distance_vs_lattice_model_deviations": dist_drift,
        "states": tm["distinct"] + meta["distinct"] + r.distinct, "transitions": tm["generated"] + meta["generated"] + r.generated,
        "traces_validated_against_impl": 1, "evaluations": summ["evaluations"] + len(events), "distinct_nontrivial": summ["evaluations"] // 2,
        "rule": "Sphere1D: 720 positions (0.5 degree) on one great circle; Gen_Circle gives, for 9 centres (equator crossing, next to and on "
                "both poles, far side) x 8 radii m in 0..359 steps, the containment of all 720 positions and 12 circle/circle relations "
                "each; T10 (monotonicity, point-set reading, symmetry) is checked on a 24-position lattice. The replayer instantiates "
                "the lattice on 5 great circles (meridian pairs 0/180, 37.5/-142.5, -180/0, 179.5/-0.5 and the equator), radii "
                "(m+q/8)u for q in {1,3,5,7} and 0, and runs 14 call forms (Point, SimplePoint, Feature, MultiPoint, both operand "
                "orders, Feature(Circle)); off-lattice probes at 0.999..1.1 of the radius at polygon-edge bearings, JSON->Parse round "
                "trips (m, km, radius as string) and polygon-shape facts are recorded and judged by Trace_C13. distinct_nontrivial = "
                "lattice decisions / 2 (each (circle, position) is seen through several call forms)",
        "samples": [{"recorded_event": events[0]}, {"recorded_event": events[-1]}],
        "lattice_decisions": summ["evaluations"], "replay_mismatches": summ["mismatches"], "events_judged_by_tlc": len(events), "mismatches": len(mism),
    }
    vlib.write_evidence(PID, tier, seed, t0, cov, [vlib.TOOLS,
                        "only what is discrete once distance is linear in the lattice index is decided: dispatch over point kinds / wrappers / operand order, the threshold at lattice positions incl. poles and the antimeridian (margin u/8 = 6.9 km), monotonicity, circle-circle relations, serialisation, shape facts; the 1 mm / 1e-8 accuracy of the threshold for arbitrary centres and bearings is numeric and NOT decided",
                        "off-lattice probes are placed with geo.DestinationPoint (trusted to 1e-6 relative) at 0.05% .. 10% from the boundary"],
                        len(v.violations))
    return rc


def replay(path):
    rec = json.load(open(path))
    print(rec["what"])
    return 0
