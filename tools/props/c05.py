"""C05 Every operation terminates normally on every input."""
import json, os, re
import vlib

PID = "C05"
OBJ_CFG = 'SPECIFICATION Spec\nINVARIANT Emit\nCHECK_DEADLOCK FALSE\n'
WALK_CFG = 'CONSTANTS N = 2  K = 3\nSPECIFICATION Spec\nINVARIANT Emit\nCHECK_DEADLOCK FALSE\n'
T6_CFG = 'CONSTANTS N = 2  KLine = 3  KOther = 3\nSPECIFICATION Spec\nPROPERTY Termination\nCHECK_DEADLOCK FALSE\n'


def gens():
    o = vlib.cached_tlc("c05-objects", "Gen_C05", OBJ_CFG, workers=1)
    w = vlib.cached_tlc("c05-walk", "Gen_LineWalk", WALK_CFG, workers=8)
    return o, w


def prepare():
    gens()
    from props import c07
    c07.gen_lex()
    from props import c08
    c08.gen()


def t6():
    """Theorem T6: Termination of the LineWalk transition system (expected to FAIL while the walk is a known finding)."""
    log = os.path.join(vlib.BUILD, "work", PID, "t6.log")
    r = vlib.run_tlc("LineWalk", T6_CFG, workers=8, timeout=900, keep_log=log, want_lines=False)
    lasso = None
    if r.violated:
        text = open(log).read()
        m = re.search(r"State 1:.*?line = (<<.*?>>)\n.*?other = (<<.*?>>)\n", text, re.S)
        if m:
            lasso = {"line": json.loads(vlib.tla2json(m.group(1))), "other": json.loads(vlib.tla2json(m.group(2)))}
    return r, lasso


def describe(e):
    if e["op"] == "walk":
        return "Line%s.ContainsLine(Line%s) -> %s" % (e["line"], e["other"], e["out"])
    if e["op"] == "parse":
        return "Parse(%r)%s -> out=%s obj=%s err=%s %s" % (e.get("text"), " [%s]" % e["m"] if e.get("m") else "", e["out"], e.get("obj"), e.get("err"), e.get("msg", ""))
    if e["op"] == "build":
        return "constructing %s -> %s (%s)" % (json.dumps(e.get("a"))[:400], e["out"], e.get("msg"))
    return "%s on a=%s b=%s -> %s %s" % (e.get("m"), json.dumps(e.get("a"))[:300], json.dumps(e.get("b"))[:300], e["out"], e.get("msg", ""))


def run(tier, seed, t0):
    (od, om), (wd, wm) = gens()
    out = os.path.join(vlib.BUILD, "work", PID)
    os.makedirs(out, exist_ok=True)
    v = vlib.Verdict(PID)
    kf = v.find_known("line.go:69-109")
    # (i) model level
    r6, lasso = t6()
    if r6.violated and kf is None:
        raise vlib.Inconclusive("T6 fails on the model (LineWalk does not terminate) but no known finding lists line.go:69-109")
    if not r6.violated and kf is not None:
        raise vlib.Inconclusive("T6 holds on the model but KNOWN_FINDINGS.jsonl still lists the walk: spec and findings file out of sync")
    # (ii)+(iii) sweep under the watchdog
    from props import c07, c08
    ldata, lmeta = c07.gen_lex()
    summ = json.loads(vlib.run_harness(["c05", od, wd, out, seed, tier], timeout=5000, env={"VERIF_LEXROWS": ldata, "VERIF_DOCROWS": c07.split(c08.gen()[0])[0]}))
    # (iv) building and searching the segment indexes over the series layouts of C04 (sizes up to 65 538 points): a panic is C05's
    out4 = os.path.join(out, "c04")
    os.makedirs(out4, exist_ok=True)
    # the stage runs as a process of its own: a fatal stack overflow or a hang while an index is built kills / stalls that process
    # and is the code's doing (C05), any other failure of the process is the harness's (inconclusive)
    import subprocess
    exe = os.path.join(vlib.BUILD, "bin", "harness")
    try:
        p4 = subprocess.run([exe, "c04", out4, str(seed), tier], cwd=vlib.ROOT, env=dict(vlib.GOENV), capture_output=True, text=True,
                            timeout=900 if tier == "quick" else 3000)
        died = None if p4.returncode == 0 else (p4.stderr[:1500] + " ... " + p4.stderr[-700:])
    except subprocess.TimeoutExpired:
        died = "TIMEOUT"
    if died is not None:
        lib_panic = "panic:" in died and "github.com/tidwall/geojson" in died
        if died == "TIMEOUT" or "stack overflow" in died or "goroutine stack exceeds" in died or lib_panic:
            v.violation({"property": PID, "event": {"op": "index-build-stage", "stderr_tail": died[-600:]},
                         "what": "building / searching the segment indexes over the series layouts of C04 %s" % (
                             "does not return (no progress for 15 minutes; the stage normally takes seconds)" if died == "TIMEOUT"
                             else ("panics inside the library: " if lib_panic else "kills the process with a stack overflow: ") + died[:300].replace("\n", " "))})
            open(os.path.join(out4, "c04.events.ndjson"), "w").close()
        else:
            raise vlib.Inconclusive("index-build stage of the harness failed:\n" + died)
    index_panics, last_series, nseries = 0, None, 0
    for l in open(os.path.join(out4, "c04.events.ndjson")):
        if '"op":"series"' in l:
            last_series = l
            nseries += 1
        elif '"op":"panic"' in l:
            e = json.loads(l)
            ser = json.loads(last_series) if last_series else {}
            index_panics += 1
            if index_panics <= 30:
                v.violation({"property": PID, "event": e, "series_layout": ser.get("layout"), "series_points": len(ser.get("pts", [])),
                             "what": "building / searching the %s index (min points %s) of a %d-point series (layout %s) panics: %s" % (
                                 e["kind"], e["minpts"], len(ser.get("pts", [])), ser.get("layout"), e["msg"])})
    events, mism, r = vlib.judge_trace("Trace_C05", os.path.join(out, "c05.events.ndjson"), timeout=3000, split=True)
    drift = [m for m in mism if m[0] == "DRIFT"]
    for m in [m for m in mism if m[0] == "MISMATCH"]:
        e = events[m[1] - 1]
        rec = {"property": PID, "event": e, "expected_L1": "ok", "predicted_L2": m[3], "site": m[4], "what": describe(e)}
        if e["out"] == "runaway" and m[3] == "runaway" and kf is not None:
            v.known_finding(kf["id"], rec)
        else:
            v.violation(rec)
    # the lasso TLC found must be a real hang
    lasso_real = None
    if lasso:
        ev = [e for e in events if e["op"] == "walk" and e["line"] == lasso["line"] and e["other"] == lasso["other"]]
        lasso_real = ev[0]["out"] if ev else "not in the replayed universe"
    rc = v.finish()
    walks = [e for e in events if e["op"] == "walk"]
    cov = {
        "states": om["distinct"] + wm["distinct"] + r6.distinct + r.distinct,
        "transitions": om["generated"] + wm["generated"] + r6.generated + r.generated,
        "traces_validated_against_impl": 1,
        "evaluations": summ["cases"],
        "distinct_nontrivial": summ["cases"],
        "rule": "(i) T6: TLC checks Termination of the LineWalk transition system over all pairs of 2-3 point octilinear lines on the "
                "3x3 lattice and reports a lasso while the walk is a known finding; Gen_LineWalk prints the L2 outcome for all %d pairs "
                "and every pair is executed on the real code under the loop-progress hook. (ii) every method of Object / Spatial / "
                "Collection (%d unary, %d binary) on every ordered pair of the %d objects of Gen_C05 (all kinds incl. degenerate "
                "constructor outputs, circles with zero/negative/NaN/huge radius, 70-point degenerate series, 2^16 coordinates). "
                "(iii) Parse on model-rendered texts, every (strided) prefix, single-byte damage, every byte value 0..255 alone / in front of / behind / substituted and inserted at every position of two short documents, byte order marks, nesting to depth "
                "10000, and the ~100 000 texts generated from the state graph of the JSON automaton (JsonLex / Gen_Lex: one text per "
                "transition, legal or not, in whole-text, member and coordinate position) and the ~17 000 documents of Gen_Doc (incl. out-of-range coordinates, Circle features, large documents), under 4-5 "
                "option sets; every object Parse returns is then put through every unary method. (iv) the segment indexes are built and "
                "searched over the series layouts of C04 (up to 65 538 points, 7 index configurations); a panic there is a violation here. All run in a worker process under a per-call watchdog (4 s); every abnormal outcome, "
                "every walk and every Parse outcome is judged by Trace_C05. distinct_nontrivial = executed cases (all distinct)" % (
                    len(walks), len(json.loads("[]")) or 15, 7, summ["objects"]),
        "samples": [{"T6_lasso_found_by_TLC": lasso, "real_code_on_that_input": lasso_real},
                    {"event": [e for e in events if e["op"] == "binary"][:1]}, {"event": [e for e in events if e["op"] == "parse"][5:6]}],
        "index_series_built": nseries, "index_panics": index_panics,
        "cases_by_kind": summ["by_kind"], "outcomes": summ["outcomes"], "worker_restarts": summ["worker_restarts"],
        "sweep_stopped_at_case_after_60_crashes_or_timeouts": summ.get("sweep_stopped_at_case_after_60_crashes_or_timeouts", -1),
        "events_judged_by_tlc": len(events), "walk_model_drift": len(drift), "known_finding_hits": v.known_hits,
        "T6": {"termination_violated_on_model": bool(r6.violated), "states": r6.distinct},
    }
    vlib.write_evidence(PID, tier, seed, t0, cov, [vlib.TOOLS,
                        "totality of Parse on arbitrary bytes is checked as an outcome property on perturbations of model-rendered texts; the model has no lexer (gjson.Valid)",
                        "a hang is a call that does not return within 4 s in an otherwise idle worker (calls take microseconds), or a loop that exceeds its state-space bound under the verif hook",
                        "polynomial-time is not measured beyond the watchdog"],
                        len(v.violations))
    return rc


def replay(path):
    rec = json.load(open(path))
    print(rec["what"])
    print(json.dumps(rec["event"])[:800])
    return 0
