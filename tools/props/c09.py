"""C09 Object-level predicates form a consistent algebra across all kinds."""
import json, os
import vlib, objs_common as oc, session_common as sc

PID = "C09"


def prepare():
    oc.gen()
    sc.mc()
    sc.warm()


def run(tier, seed, t0):
    data, meta, summ, events, out = oc.replay(PID, tier, seed)
    v = vlib.Verdict(PID)
    # the session machine: behaviours of spec/Session.tla stepped through the real library
    sev, ssum, smeta, mcm = sc.replay(PID, tier, seed)
    nrel = oc.classify_rel(v, events + sev)
    for e in sev:
        if e["op"] == "session" and (e["what"] in ("reparse-accepted", "reparse-rejected", "reparse-fixpoint", "action-panic", "fact-panic", "fatal") or not sc.is_coll_tree(e.get("tree"))):
            v.violation({"property": PID, "event": e, "what": "session step %d (%s): %s: got %s, the specification says %s" % (
                e["step"], e["history"][-1], e["what"], json.dumps(e.get("got"))[:300], json.dumps(e.get("exp"))[:300])})
    for e in events + sev:
        if e["op"] == "dual":
            v.violation({"property": PID, "event": e, "what": "%s give different answers (%s vs %s) for A=%s B=%s" % (
                e["calls"], e["r1"], e["r2"], json.dumps(e["A"])[:250], json.dumps(e["B"])[:250])})
    def single_child(e):   # a single-child collection against its child: C10's clause, judged there
        return e["op"] == "equiv" and e["A2"][0] in ("MultiPoint", "MultiLineString", "MultiPolygon", "GeometryCollection") and e["A"][0] != e["A2"][0]
    laws = [e for e in events if e["op"] in ("law", "equiv") and not single_child(e)]
    lp = os.path.join(out, "laws.ndjson")
    open(lp, "w").write("".join(json.dumps(e) + "\n" for e in laws))
    evs, mism, r = vlib.judge_trace("Trace_C09", lp)
    for m in mism:
        e = evs[m[1] - 1]
        if e["op"] == "equiv":
            v.violation({"property": PID, "event": e, "law": m[2], "what": "A=%s and its other representation A2=%s answer differently against B=%s: %s vs %s (Intersects both ways, Contains, Within both ways)" % (
                json.dumps(e["A"])[:200], json.dumps(e["A2"])[:200], json.dumps(e["B"])[:200], e["r1"], e["r2"])})
            continue
        v.violation({"property": PID, "event": e, "law": m[2], "what": "law '%s' fails for A=%s B=%s" % (m[2], json.dumps(e["A"])[:200], json.dumps(e["B"])[:200])})
    rc = v.finish()
    cov = {
        "states": meta["distinct"] + r.distinct, "transitions": meta["generated"] + r.generated, "traces_validated_against_impl": 1 + smeta["behaviours"],
        "evaluations": summ["relation_calls"] + len(laws) * 12, "distinct_nontrivial": summ["relation_calls"] // 6 + len(laws),
        "rule": "Gen_Obj: 19 lattice leaves on which the leaf predicates are exact (points incl. SimplePoint, 2-point lines, rectangles, "
                "convex polygons) with witness masks, 4 empty leaves, a Feature around each, all two-child GeometryCollections, "
                "MultiPoint/MultiLineString/MultiPolygon pairs, nested / partly empty / Feature-holding collections and "
                "FeatureCollections (667 objects); ObjectsPred gives intersects / contains / within for 138 x 667 ordered pairs "
                "following the text of C09/C10 (a Feature answers as its geometry, Rect as its polygon, SimplePoint as Point) and "
                "TLC checks the algebra laws on the model. Every pair is replayed in both call directions (A.Contains(B) and "
                "B.Within(A), ...) on objects built by constructors or Parse under child-index thresholds; pairs with Circles "
                "(6 circles x 138 objects, both orders, and circle x circle) are recorded as law events validated by Trace_C09. "
                "The same law events are recorded for all ordered pairs of 39 'wild' planar objects outside the exact-safe set (polygons "
                "with one and two holes, lines along / across / inside a hole, degenerate rectangles, bent and collinear lines, concave "
                "polygons, Multi* and collections of them), and transparency events compare the six answers of each of them with those "
                "of its other representations (Rect / five-point Polygon, Point / SimplePoint, Feature around it) against every partner. "
                "distinct_nontrivial = replayed ordered pairs + law and transparency events",
        "samples": [{"law_event": laws[len(laws) // 2]}],
        "relation_calls": summ["relation_calls"], "relation_mismatches": nrel, "law_events_judged_by_tlc": len(laws), "wild_law_events": summ.get("wild_law_events"), "transparency_events": summ.get("equivalence_events"), "law_violations": len(mism),
        "known_finding_hits": v.known_hits,
        "session_machine": sc.evidence(ssum, smeta, mcm, sev),
    }
    vlib.write_evidence(PID, tier, seed, t0, cov, [vlib.TOOLS, vlib.A_FLOAT,
                        "leaves are restricted to shapes on which the pinned leaf predicates are exact (the inexact ones are C03's known findings); Circles take part in the laws only",
                        "quick tier replays every second pair"], len(v.violations))
    return rc


def replay(path):
    rec = json.load(open(path))
    print(rec["what"])
    return 0
