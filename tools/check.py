#!/usr/bin/env python3
"""./check <id> quick|thorough   |   ./check <id> --replay <file>   |  ./check setup"""
import importlib, os, sys, time, json, traceback
sys.path.insert(0, os.path.dirname(os.path.abspath(__file__)))
import vlib


def main():
    if len(sys.argv) >= 2 and sys.argv[1] == "setup":
        import setup
        return setup.main()
    if len(sys.argv) < 3:
        print(__doc__)
        return 2
    pid = sys.argv[1]
    tier = sys.argv[2]
    seed = int(os.environ.get("VERIF_SEED", "1"))
    try:
        mod = importlib.import_module("props." + pid.lower())
    except ImportError as e:
        print("INCONCLUSIVE property=%s no check module: %s" % (pid, e))
        return 2
    t0 = time.time()
    try:
        vlib.build_harness()
        if tier == "--replay":
            return mod.replay(sys.argv[3])
        if tier not in ("quick", "thorough"):
            print(__doc__)
            return 2
        return mod.run(tier, seed, t0)
    except vlib.Inconclusive as e:
        print("INCONCLUSIVE property=%s %s" % (pid, str(e)[:3000]))
        return 2
    except Exception:
        traceback.print_exc()
        print("INCONCLUSIVE property=%s internal error" % pid)
        return 2


if __name__ == "__main__":
    sys.exit(main())
