#!/usr/bin/env python3
"""selftest_session.py: "the binding binds" for the session machine (TLC -> Go direction and the trace specification).

(1) The step lines TLC wrote for the quick tier are corrupted in one expectation each (a fact, a reply code, a search
    result, the concrete kind of a stored leaf) at a dozen steps: the Go replay, run on the UNCHANGED library, must report
    a disagreement at every corrupted step (and at no other step beyond those it reports for the uncorrupted lines).
(2) An action sequence with one action that is not enabled (a Collect over an empty key) must not be consumed by
    Trace_Session.  Exit 0 iff both hold.  Nothing is written outside build/selftest."""
import copy, json, os, re, subprocess, sys
sys.path.insert(0, os.path.dirname(os.path.abspath(__file__)))
import vlib, session_common as sc, universe

OUT = os.path.join(vlib.BUILD, "selftest")


def replay(steps, lpath, out):
    os.makedirs(out, exist_ok=True)
    json.loads(vlib.run_harness(["session", steps, lpath, out]))
    evs = [json.loads(l) for l in open(os.path.join(out, "session.events.ndjson"))]
    return evs


def positions(steps_lines, evs):
    """(behaviour, step) of every reported disagreement"""
    return {(e["behaviour"], e["step"]) for e in evs}


def main():
    vlib.build_harness()
    steps, lpath, meta = sc.behaviours(2, *sc.QUICK)
    lines = open(steps).readlines()
    os.makedirs(OUT, exist_ok=True)
    base = positions(lines, replay(steps, lpath, os.path.join(OUT, "sess-base")))
    rows = [json.loads(l) for l in lines]
    corrupted = {}
    b = 0
    kinds = ["fact-empty", "fact-np", "rel", "search", "kind", "rect"]
    for i, row in enumerate(rows):
        if row[1] == 1:
            b += 1
        if len(corrupted) >= 12 or i % 37 != 5 or (b, row[1]) in base:
            continue
        want = kinds[len(corrupted) % len(kinds)]
        r = copy.deepcopy(row)
        done = False
        for k, ent in enumerate(r[3]):
            if not ent:
                continue
            tree, facts = ent
            if want == "fact-empty":
                facts[0] = not facts[0]; done = True
            elif want == "fact-np":
                facts[2] += 1; done = True
            elif want == "rect" and facts[1]:
                facts[1][2] += 1; done = True
            elif want == "kind" and tree[0] in ("Point", "SimplePoint"):
                tree[0] = "SimplePoint" if tree[0] == "Point" else "Point"; done = True
            if done:
                break
        if want == "rel":
            for a in r[4]:
                for c in a:
                    if c and not done:
                        c[0] ^= 1; c[1] ^= 1; done = True
        if want == "search":
            for a in r[5]:
                if a and not done:
                    a[0] = [x for x in a[0][1:]] if a[0] else [1]; done = True
        if done:
            rows[i] = r
            corrupted[(b, row[1])] = want
    bad = os.path.join(OUT, "sess-corrupted.lines")
    with open(bad, "w") as f:
        for r in rows:
            f.write(json.dumps(r) + "\n")
    after = positions([json.dumps(r) for r in rows], replay(bad, lpath, os.path.join(OUT, "sess-bad")))
    missed = [p for p in corrupted if p not in after]
    extra = after - base - set(corrupted)
    print("session replay: %d corruptions (%s), reported %d, missed %s, other new disagreements %d" % (
        len(corrupted), ",".join(sorted(set(corrupted.values()))), len(corrupted) - len(missed), missed, len(extra)))
    ok = bool(corrupted) and not missed and not extra
    # (2) a disabled action is not consumed
    acts = os.path.join(OUT, "sess-disabled.ndjson")
    open(acts, "w").write('["Reset"]\n["SetLeaf", 1, 2]\n["Collect", 2, "GeometryCollection", [1, 3]]\n["SetLeaf", 3, 4]\n')
    consts = sc.gen_consts(len(universe.leaves_file()[1]))
    try:
        r = vlib.run_tlc("Trace_Session", consts + "SPECIFICATION TSpec\nINVARIANT Emit\nPOSTCONDITION Consumed\nCHECK_DEADLOCK FALSE\n",
                         workers=1, timeout=300, env={"LEAVES": lpath, "TRACE": acts})
        rejected, how = bool(r.violated), str(r.violated)
    except vlib.Inconclusive as e:           # run_tlc treats a failed postcondition as a tool failure
        rejected = "Postcondition Consumed" in str(e) and "3 states generated" in str(e)
        how = "postcondition Consumed false after 2 of 4 events"
    print("trace specification: a Collect over an empty key %s (%s)" % ("stops the run" if rejected else "WAS CONSUMED", how))
    ok = ok and rejected
    print("SELFTEST-SESSION", "PASS" if ok else "FAIL")
    return 0 if ok else 1


if __name__ == "__main__":
    sys.exit(main())
