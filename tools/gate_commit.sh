#!/bin/bash
# gate_commit.sh "<message>": refresh evidence with every quick check on the CLEAN /repo tree and commit only if all 17 exit 0
cd /verif
if [ -n "$(git -C /repo status --short)" ]; then echo "REFUSED: /repo is not clean"; exit 1; fi
rm -f replay/*.json
out=$(tools/run_all.sh quick 2>&1)
bad=$(echo "$out" | grep -v "rc=0 ")
if [ -n "$bad" ] || [ "$(echo "$out" | grep -c 'rc=0 ')" != "17" ]; then echo "REFUSED: not all checks green:"; echo "$bad" | cut -c1-200; exit 1; fi
tools/validate.sh | tail -1 | grep -q "manifest ok" || { echo "REFUSED: manifest/evidence invalid"; exit 1; }
git add -A && git commit -qm "$1" && echo "committed: $1"
