#!/bin/bash
# run_all.sh [tier]: runs every registered check on the current tree (refreshes evidence); prints a summary line per check.
tier=${1:-quick}
cd /verif
for id in $(jq -r '.checks[].property_id' MANIFEST.json); do
  s=$(date +%s)
  out=$(./check $id $tier 2>/dev/null); rc=$?
  echo "$id rc=$rc $(( $(date +%s) - s ))s known=$(echo "$out" | grep -c '^KNOWN-FINDING') viol=$(echo "$out" | grep -c '^VIOLATION') $(echo "$out" | grep -m1 '^INCONCLUSIVE' | cut -c1-200)"
done
