----------------------------- MODULE MC_RingRefine -----------------------------
(***************************************************************************)
(* Theorem T4 (refinement, model level): for every simple octilinear ring   *)
(* of at most K vertices on the (0..N)^2 lattice (both closing conventions  *)
(* are equivalent for L2 after the seam fix; the ring is taken closed) and  *)
(* every octilinear or degenerate query segment, compare the transcription  *)
(* of ringContainsSegment (RingImpl!RCSat over all admissible on-edge       *)
(* indexes) with the exact witness-grid containment of the segment in the   *)
(* closed ring region.  Every deviation is printed with the decision site   *)
(* that produced it: the set of sites is the model-level extent of the      *)
(* known finding KF-C03-ring-segment, established without running any Go.   *)
(***************************************************************************)
EXTENDS PlanarImpl, PlanarPairs, TLC
CONSTANT K
VARIABLES ring, done
vars == <<ring, done>>
Pts == (0..N) \X (0..N)
Lt(p, q) == X(p) < X(q) \/ (X(p) = X(q) /\ Y(p) < Y(q))
Init == ring = <<>> /\ done = FALSE
Extend == /\ ~done /\ Len(ring) < K
          /\ \E p \in Pts : /\ (Len(ring) > 0 => Lt(ring[1], p) /\ Octi(ring[Len(ring)], p) /\ p # ring[Len(ring)])
                            /\ ring' = Append(ring, p)
          /\ done' = FALSE
Close == /\ ~done /\ Len(ring) >= 3 /\ SimpleOpen(ring)
         /\ ring' = Append(ring, ring[1]) /\ done' = TRUE
Next == Extend \/ Close
Spec == Init /\ [][Next]_vars
QuerySegs == {ab \in Pts \X Pts : Octi(ab[1], ab[2])}
\* L1: every witness of the segment lies in the closed ring region
SegInRingL1(r, a, b) == LET mr == Mask(<<"poly", r, <<>>>>) ms == Mask(<<"line", <<a, b>>>>) IN ms \subseteq mr
Check == done =>
   LET o == RingOp(ring) mr == Mask(<<"poly", ring, <<>>>>) IN
   \A ab \in QuerySegs :
      LET l1 == Mask(<<"line", <<ab[1], ab[2]>>>>) \subseteq mr
          outs == RCSset(o, ab[1], ab[2], TRUE)
      IN \A r \in outs : r[1] = l1 \/ PrintT(ToString(<<"DEV", r[2], l1, ring, ab>>))
=============================================================================
