------------------------------ MODULE Trace_C06 ------------------------------
(***************************************************************************)
(* Judges round trips recorded from the real code: the input document (as  *)
(* the AST TLC generated), the tokenised AST of the real JSON output, and   *)
(* the harness observations valid JSON / re-parse succeeded with the same   *)
(* kind / second output byte-identical / same geometry answers.             *)
(***************************************************************************)
EXTENDS GeoDocOut, TraceBase
Good(e) == /\ e.valid /\ e.reparsed /\ e.samekind /\ e.fix /\ e.sameans
           /\ OutInfo(e.out) = ExpInfo(e.doc)
           /\ KnownOnce(e.out)
           /\ e.members = ExpMembers(e.doc)
           /\ (e.ispoint => Get(e.doc, "type") = Str("Point") /\ e.z = ExpZ(e.doc))
           /\ (Get(e.doc, "type") = Str("Point") => e.ispoint)
Why(e) == IF ~e.valid THEN "output is not valid JSON" ELSE IF ~e.reparsed THEN "output is rejected by Parse"
          ELSE IF ~e.samekind THEN "re-parsed object has another kind" ELSE IF ~e.fix THEN "second output differs (not a fixpoint)"
          ELSE IF ~e.sameans THEN "re-parsed object answers differently"
          ELSE IF ~(OutInfo(e.out) = ExpInfo(e.doc) /\ KnownOnce(e.out)) THEN "output does not carry the information of the input"
          \* the two accessor facts are reported only when everything the statement of C06 asks for holds
          ELSE IF e.members # ExpMembers(e.doc) THEN "Members() does not return the foreign members"
          ELSE "IsPoint / Z"
Judge == pos > 0 =>
   LET e == Trace[pos] IN
   IF Good(e) THEN TRUE ELSE PrintT(ToString(<<"MISMATCH", pos, Why(e), "n/a", "writer">>))
=============================================================================
