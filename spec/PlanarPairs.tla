------------------------------ MODULE PlanarPairs ------------------------------
(***************************************************************************)
(* L1 -- the pair predicates, defined denotationally on the OCTILINEAR      *)
(* fragment: shapes whose vertices lie on the lattice (0..N)^2 and whose    *)
(* edges are horizontal, vertical or of slope +-1.  Such a shape is a union *)
(* of cells (vertices, edge pieces, triangles) of the tetrakis tiling of    *)
(* the lattice; every cell has a witness on the 4x refined grid: lattice    *)
(* points (4i,4j), square centres (4i+2,4j+2), midpoints of unit edges      *)
(* (4i+2,4j), of half diagonals (4i+1,4j+1) and triangle interiors          *)
(* (4i+2,4j+1).  Membership is constant on each open cell, hence            *)
(*    A intersects B  <=>  some witness lies in both,                       *)
(*    A contains  B  <=>  B is non-empty and every witness of B lies in A.  *)
(***************************************************************************)
EXTENDS Planar
CONSTANT N
G == 4 * N
NW == (G + 1) * (G + 1)
Wit(k) == <<(k - 1) \div (G + 1), (k - 1) % (G + 1)>>          \* witness index 1..NW
Scale4Pts(r) == [i \in 1..Len(r) |-> <<4 * X(r[i]), 4 * Y(r[i])>>]
Scale4(s) ==
   CASE Kind(s) = "pt"   -> <<"pt", <<4*X(s[2]), 4*Y(s[2])>>>>
     [] Kind(s) = "rect" -> <<"rect", <<4*X(s[2]), 4*Y(s[2])>>, <<4*X(s[3]), 4*Y(s[3])>>>>
     [] Kind(s) = "line" -> <<"line", Scale4Pts(s[2])>>
     [] Kind(s) = "poly" -> <<"poly", Scale4Pts(s[2]), [h \in 1..Len(s[3]) |-> Scale4Pts(s[3][h])]>>
\* the witness mask of a shape: the set of witness indexes that lie in it
Mask(s) == LET s4 == Scale4(s) IN {k \in 1..NW : In(Wit(k), s4)}
IntersectsM(ma, mb) == ma \cap mb # {}
ContainsM(ma, mb) == mb # {} /\ mb \subseteq ma
Intersects(A, B) == IntersectsM(Mask(A), Mask(B))
Contains(A, B) == ContainsM(Mask(A), Mask(B))

\* ---- the fragment
Octi(a, b) == LET dx == X(b)-X(a) dy == Y(b)-Y(a) IN (dx = 0 \/ dy = 0 \/ dx = dy \/ dx = -dy)
OctiSeries(r, closed) == \A i \in 1..NSegS(r, closed) : Octi(SegAtS(r,i)[1], SegAtS(r,i)[2])
\* simple ring given WITHOUT its closing vertex: edges are non-degenerate, adjacent edges
\* share only their common vertex, other edges are disjoint
SimpleOpen(r) ==
   LET n == Len(r) S(i) == <<r[i], IF i = n THEN r[1] ELSE r[i+1]>> IN
   /\ n >= 3
   /\ \A i \in 1..n : S(i)[1] # S(i)[2] /\ Octi(S(i)[1], S(i)[2])
   /\ \A i \in 1..n : \A j \in (i+1)..n :
        LET s == S(i) t == S(j) IN
        IF j = i+1 THEN ~OnSeg(s[1],t[1],t[2]) /\ ~OnSeg(t[2],s[1],s[2])
        ELSE IF i = 1 /\ j = n THEN ~OnSeg(s[2],t[1],t[2]) /\ ~OnSeg(t[1],s[1],s[2])
        ELSE ~SegInter(s[1],s[2],t[1],t[2])
=============================================================================
