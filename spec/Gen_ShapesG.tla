------------------------------ MODULE Gen_ShapesG ------------------------------
(***************************************************************************)
(* Shapes with edges of arbitrary slope on the (0..N)^2 lattice, for the    *)
(* general-slope universe of C02 / C03 / C12: two- and three-point lines,   *)
(* triangles and simple quadrilaterals that have at least one edge which is *)
(* NOT horizontal, vertical or diagonal (the octilinear ones are in the     *)
(* universe of Gen_Shapes).  One encoding per shape: lines with the smaller *)
(* end first, rings started at their smallest vertex, one direction.        *)
(***************************************************************************)
EXTENDS Planar, TLC
CONSTANT N
VARIABLE seq
Pts == (0..N) \X (0..N)
Lt(p, q) == X(p) < X(q) \/ (X(p) = X(q) /\ Y(p) < Y(q))
Octi(a, b) == LET dx == X(b)-X(a) dy == Y(b)-Y(a) IN (dx = 0 \/ dy = 0 \/ dx = dy \/ dx = -dy)
Distinct(s) == \A i \in 1..Len(s) : \A j \in (i+1)..Len(s) : s[i] # s[j]
Init == seq = <<>>
Next == Len(seq) < 4 /\ \E p \in Pts : seq' = Append(seq, p) /\ Distinct(seq')
Spec == Init /\ [][Next]_seq
\* simple ring given without its closing vertex (any slopes)
SimpleOpenG(r) ==
   LET n == Len(r) S(i) == <<r[i], IF i = n THEN r[1] ELSE r[i+1]>> IN
   /\ n >= 3
   /\ \A i \in 1..n : \A j \in (i+1)..n :
        LET s == S(i) t == S(j) IN
        IF j = i+1 THEN ~OnSeg(s[1],t[1],t[2]) /\ ~OnSeg(t[2],s[1],s[2])
        ELSE IF i = 1 /\ j = n THEN ~OnSeg(s[2],t[1],t[2]) /\ ~OnSeg(t[1],s[1],s[2])
        ELSE ~SegInter(s[1],s[2],t[1],t[2])
SomeSlope(r, closed) == \E i \in 1..NSegS(r, closed) : ~Octi(SegAtS(r,i)[1], SegAtS(r,i)[2])
MinFirst(r) == \A i \in 2..Len(r) : Lt(r[1], r[i])
Emit ==
   LET n == Len(seq) IN
   /\ (n \in 2..3 /\ Lt(seq[1], seq[n]) /\ SomeSlope(seq, FALSE)) => PrintT(ToString(<<"SHAPE", <<"line", seq>>>>))
   /\ (n \in 3..4 /\ MinFirst(seq) /\ Lt(seq[2], seq[n]) /\ SimpleOpenG(seq) /\ SomeSlope(Append(seq, seq[1]), TRUE))
         => PrintT(ToString(<<"SHAPE", <<"poly", Append(seq, seq[1]), <<>>>>>>))
=============================================================================
