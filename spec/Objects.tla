-------------------------------- MODULE Objects --------------------------------
(***************************************************************************)
(* L1 -- the GeoJSON object kinds as trees over planar leaves, and what    *)
(* their derived observables MEAN (C11; the predicate algebra of C09/C10    *)
(* is in ObjectsPred).  Trees are tuples so that they travel as JSON:       *)
(*   <<"Point",p>> <<"SimplePoint",p>> <<"LineString",pts>>                  *)
(*   <<"Polygon",rings>> (first ring = exterior) <<"Rect",min,max>>          *)
(*   <<"MultiPoint",pts>> <<"MultiLineString",lines>>                        *)
(*   <<"MultiPolygon",polys>> <<"GeometryCollection",objs>>                  *)
(*   <<"FeatureCollection",objs>> <<"Feature",obj>>                          *)
(***************************************************************************)
EXTENDS Planar

OKind(o) == o[1]
IsColl(o) == OKind(o) \in {"MultiPoint", "MultiLineString", "MultiPolygon", "GeometryCollection", "FeatureCollection"}

\* children of a collection as object trees, in document order
Children(o) ==
   CASE OKind(o) = "MultiPoint" -> [i \in 1..Len(o[2]) |-> <<"Point", o[2][i]>>]
     [] OKind(o) = "MultiLineString" -> [i \in 1..Len(o[2]) |-> <<"LineString", o[2][i]>>]
     [] OKind(o) = "MultiPolygon" -> [i \in 1..Len(o[2]) |-> <<"Polygon", o[2][i]>>]
     [] OKind(o) \in {"GeometryCollection", "FeatureCollection"} -> o[2]

RECURSIVE EmptyObj(_), PositionsOcc(_), PositionsAll(_), NumPointsObj(_)
\* an object is empty when no part occupies space: no point, no line of at
\* least two positions, no polygon (exterior) of at least three
EmptyObj(o) ==
   CASE OKind(o) \in {"Point", "SimplePoint", "Rect"} -> FALSE
     [] OKind(o) = "LineString" -> Len(o[2]) < 2
     [] OKind(o) = "Polygon" -> Len(o[2]) = 0 \/ Len(o[2][1]) < 3
     [] OKind(o) = "Feature" -> EmptyObj(o[2])
     [] OTHER -> \A i \in 1..Len(Children(o)) : EmptyObj(Children(o)[i])

Flatten(ss) == LET RECURSIVE F(_) F(i) == IF i > Len(ss) THEN <<>> ELSE ss[i] \o F(i+1) IN F(1)
\* every position of the object (all parts)
PositionsAll(o) ==
   CASE OKind(o) \in {"Point", "SimplePoint"} -> <<o[2]>>
     [] OKind(o) = "Rect" -> <<o[2], o[3]>>
     [] OKind(o) = "LineString" -> o[2]
     [] OKind(o) = "Polygon" -> Flatten(o[2])
     [] OKind(o) = "Feature" -> PositionsAll(o[2])
     [] OTHER -> Flatten([i \in 1..Len(Children(o)) |-> PositionsAll(Children(o)[i])])
\* every position of every non-empty part
PositionsOcc(o) ==
   IF EmptyObj(o) THEN <<>>
   ELSE CASE OKind(o) \in {"Point", "SimplePoint", "Rect", "LineString", "Polygon"} -> PositionsAll(o)
          [] OKind(o) = "Feature" -> PositionsOcc(o[2])
          [] OTHER -> Flatten([i \in 1..Len(Children(o)) |-> PositionsOcc(Children(o)[i])])

\* Rect(): tight bounding box of all positions of all non-empty parts (defined for non-empty objects)
RectObj(o) == BBoxS(PositionsOcc(o))
\* twice the centre: the box midpoint, or the position itself for points
Center2Obj(o) == IF OKind(o) \in {"Point", "SimplePoint"} THEN <<2*X(o[2]), 2*Y(o[2])>>
                 ELSE LET r == RectObj(o) IN <<r[1] + r[3], r[2] + r[4]>>
ValidPos(p) == X(p) >= -180 /\ X(p) <= 180 /\ Y(p) >= -90 /\ Y(p) <= 90
\* Valid(): every position is a valid longitude/latitude
ValidObj(o) == \A i \in 1..Len(PositionsAll(o)) : ValidPos(PositionsAll(o)[i])

Sum(s) == LET RECURSIVE F(_) F(i) == IF i > Len(s) THEN 0 ELSE s[i] + F(i+1) IN F(1)
NumPointsObj(o) ==
   CASE OKind(o) \in {"Point", "SimplePoint"} -> 1
     [] OKind(o) = "Rect" -> 2
     [] OKind(o) = "LineString" -> Len(o[2])
     [] OKind(o) = "Polygon" -> Len(Flatten(o[2]))
     [] OKind(o) = "Feature" -> NumPointsObj(o[2])
     [] OTHER -> Sum([i \in 1..Len(Children(o)) |-> NumPointsObj(Children(o)[i])])
=============================================================================
