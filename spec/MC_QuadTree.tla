---- MODULE MC_QuadTree ----
EXTENDS QuadTree
\* per-axis intervals realising every position class relative to the midlines at depth 0 (4) and depth 1 (2, 6):
\* left of / ending on / straddling / starting on / right of, zero extent, touching the outer bounds, full extent
Iv == <<<<0,0>>, <<0,1>>, <<1,2>>, <<2,2>>, <<3,3>>, <<3,4>>, <<4,4>>, <<4,5>>, <<6,6>>, <<7,8>>, <<8,8>>, <<0,8>>>>
Alpha == {<<Iv[k][1], Iv[k][1], Iv[k][2], Iv[k][2]>> : k \in 1..12} \cup
         {<<Iv[k][1], Iv[((k+4) % 12) + 1][1], Iv[k][2], Iv[((k+4) % 12) + 1][2]>> : k \in 1..12}
====
