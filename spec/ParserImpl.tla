------------------------------ MODULE ParserImpl ------------------------------
(***************************************************************************)
(* L2 -- what Parse DOES (object.go:119-232 and the typed sub-parsers):     *)
(* member scan where the last of duplicate known keys wins, type dispatch,   *)
(* the three coordinate parsers with their (ex, dims) state carried across   *)
(* positions and rings, ring / line length and closure checks, recursive     *)
(* parse of geometry / geometries / features.  AcceptL2(d) = <<accepted,     *)
(* site>>; it resolves every case L1 leaves unspecified.                     *)
(***************************************************************************)
EXTENDS GeoDoc
No(site) == <<FALSE, site>>
Yes == <<TRUE, "ok">>
\* parseJSONPointCoords (point.go:159-214): at most four values are read; null becomes NaN
PointCoordsL2(v) ==
   IF ~IsArr(v) THEN No("point.go:172")
   ELSE LET n == Len(Items(v)) first == 1..MinI(4, n) IN
        IF \E i \in first : ~IsNum(Items(v)[i]) /\ ~IsNull(Items(v)[i]) THEN No("point.go:189")
        ELSE IF n < 2 THEN No("point.go:199")
        ELSE Yes
Count(v) == MinI(4, Len(Items(v)))
\* one position inside a line / ring (linestring.go:160-178, polygon.go:205-223): <<ok, site>>
InnerPosL2(v) ==
   IF ~IsArr(v) THEN No("linestring.go:159")                       \* ForEach over a non-array yields nothing: count 0
   ELSE LET n == Len(Items(v)) first == 1..MinI(4, n) IN
        IF \E i \in first : ~IsNum(Items(v)[i]) /\ (\A j \in 1..(i-1) : IsNum(Items(v)[j])) THEN No("linestring.go:168")
        ELSE IF n < 2 THEN No("linestring.go:177")
        ELSE Yes
\* parseJSONLineStringCoords (linestring.go:141-210): the dimensionality is fixed by the FIRST position;
\* a later position with more than two ordinates after a 2D start is rejected (linestring.go:181-185)
LineCoordsL2(v) ==
   IF ~IsArr(v) THEN No("linestring.go:156")
   ELSE LET n == Len(Items(v))
            RECURSIVE Go(_,_)
            Go(i, has3) == IF i > n THEN Yes
                           ELSE IF ~IsArr(Items(v)[i]) THEN No("linestring.go:160")
                           ELSE LET r == InnerPosL2(Items(v)[i]) IN
                                IF ~r[1] THEN r
                                ELSE IF ~has3 /\ Count(Items(v)[i]) > 2 /\ i > 1 THEN No("linestring.go:183")
                                ELSE Go(i+1, has3 \/ Count(Items(v)[i]) > 2)
        IN Go(1, FALSE)
LineL2(v) == LET r == LineCoordsL2(v) IN
             IF ~r[1] THEN r ELSE IF Len(Items(v)) < 2 THEN No("linestring.go:121") ELSE Yes
\* parseJSONPolygonCoords (polygon.go:184-260): one (ex, dims) state for all rings of the polygon
PolyCoordsL2(v) ==
   IF ~IsArr(v) THEN No("polygon.go:200")
   ELSE LET nr == Len(Items(v))
            RECURSIVE Ring(_,_,_)
            \* ring index r, position index i, has3 = an extra-ordinate state exists
            Ring(r, i, has3) ==
               IF r > nr THEN Yes
               ELSE IF ~IsArr(Items(v)[r]) THEN No("polygon.go:204")
               ELSE LET ring == Items(v)[r] IN
                    IF i > Len(Items(ring)) THEN Ring(r+1, 1, has3)
                    ELSE LET p == Items(ring)[i] IN
                         IF ~IsArr(p) THEN No("polygon.go:225")                   \* count stays 0 -> fewer than two
                         ELSE LET q == InnerPosL2(p) IN
                              IF ~q[1] THEN <<FALSE, "polygon.go:216-226">>
                              ELSE IF ~has3 /\ Count(p) > 2 /\ (r > 1 \/ i > 1) THEN No("polygon.go:231")
                              ELSE Ring(r, i+1, has3 \/ Count(p) > 2)
        IN Ring(1, 1, FALSE)
RingClosedL2(ring) == LET n == Len(Items(ring)) IN
                      n >= 4 /\ PosXY(Items(ring)[1]) = PosXY(Items(ring)[n])       \* polygon.go:145-149 compares x,y only
PolyL2(v) == LET r == PolyCoordsL2(v) IN
             IF ~r[1] THEN r
             ELSE IF Len(Items(v)) = 0 THEN No("polygon.go:142")
             ELSE IF \E k \in 1..Len(Items(v)) : ~RingClosedL2(Items(v)[k]) THEN No("polygon.go:146")
             ELSE Yes
AllL2(v, F(_)) == LET bad == {i \in 1..Len(Items(v)) : ~F(Items(v)[i])[1]} IN
                  IF bad = {} THEN Yes ELSE F(Items(v)[CHOOSE i \in bad : \A j \in bad : i <= j])
RECURSIVE AcceptL2(_)
AcceptL2(d) ==
   IF ~IsObj(d) THEN No("object.go:131")
   ELSE LET t == Get(d, "type") IN
   IF t = None THEN No("object.go:205")
   ELSE IF ~IsStr(t) THEN No("object.go:208")
   ELSE IF t[2] \notin Types9 THEN No("object.go:212")
   ELSE LET key == CASE t[2] = "GeometryCollection" -> "geometries" [] t[2] = "FeatureCollection" -> "features"
                     [] t[2] = "Feature" -> "geometry" [] OTHER -> "coordinates"
            m == Get(d, key)
        IN
   IF m = None THEN No("missing " \o key)
   ELSE IF t[2] = "Feature" THEN AcceptL2(m)                                        \* feature.go:142 Parse(keys.rGeometry.Raw)
   ELSE IF ~IsArr(m) THEN No(key \o " is not an array")
   ELSE CASE t[2] = "Point" -> PointCoordsL2(m)
          [] t[2] = "MultiPoint" -> AllL2(m, PointCoordsL2)
          [] t[2] = "LineString" -> LineL2(m)
          [] t[2] = "MultiLineString" -> AllL2(m, LineL2)
          [] t[2] = "Polygon" -> PolyL2(m)
          [] t[2] = "MultiPolygon" -> AllL2(m, PolyL2)
          [] OTHER -> AllL2(m, AcceptL2)
=============================================================================
