-------------------------------- MODULE Series --------------------------------
(***************************************************************************)
(* L1 -- meaning of the derived attributes of a point series (C18, C11,    *)
(* C04): segment count and segments, emptiness, bounding box, convexity,   *)
(* winding, and the semantics of a segment search.                         *)
(* A series is a sequence of points plus a `closed` flag.                  *)
(***************************************************************************)
EXTENDS Kernel

\* the cyclic vertex sequence of a closed ring: a repeated closing vertex is dropped
StripClose(r) == IF Len(r) >= 2 /\ r[Len(r)] = r[1] THEN SubSeq(r, 1, Len(r)-1) ELSE r

\* an open series of n points has n-1 segments; a closed one gets one implicit
\* closing segment exactly when its last point differs from its first
NSegS(r, closed) ==
   IF closed THEN (IF Len(r) < 3 THEN 0 ELSE IF r[Len(r)] = r[1] THEN Len(r)-1 ELSE Len(r))
   ELSE (IF Len(r) < 2 THEN 0 ELSE Len(r)-1)
SegAtS(r, i) == <<r[i], IF i = Len(r) THEN r[1] ELSE r[i+1]>>       \* 1-based
SegsS(r, closed) == [i \in 1..NSegS(r, closed) |-> SegAtS(r, i)]
EmptyS(r, closed) == IF closed THEN Len(r) < 3 ELSE Len(r) < 2

\* tight bounding box <<minx,miny,maxx,maxy>> of a non-empty sequence of points
RECURSIVE BBoxFrom(_,_,_)
BBoxFrom(r, i, acc) == IF i > Len(r) THEN acc
                       ELSE BBoxFrom(r, i+1, <<Min(acc[1],X(r[i])), Min(acc[2],Y(r[i])), Max(acc[3],X(r[i])), Max(acc[4],Y(r[i]))>>)
BBoxS(r) == BBoxFrom(r, 2, <<X(r[1]), Y(r[1]), X(r[1]), Y(r[1])>>)

\* the cyclic vertex sequence with consecutive repetitions collapsed (a repeated
\* closing vertex is the special case "last = first"); a vertex is a corner once
CycDedup(r) == LET n == Len(r)
                   keep == SelectSeq([i \in 1..n |-> i], LAMBDA i : r[i] # r[IF i = 1 THEN n ELSE i-1])
               IN IF n = 0 THEN <<>> ELSE IF keep = <<>> THEN <<r[1]>> ELSE [k \in 1..Len(keep) |-> r[keep[k]]]
\* orientation of the turn at the (i+1)-th vertex of the cyclic sequence v
Turn(v, i) == LET n == Len(v) IN Sgn(Cross(v[i], v[(i % n) + 1], v[((i+1) % n) + 1]))
\* convex: no two turns of opposite orientation along the cyclic vertex sequence
ConvexS(r) == LET v == CycDedup(r) IN
              ~\E i \in 1..Len(v) : \E j \in 1..Len(v) : Turn(v,i) > 0 /\ Turn(v,j) < 0
\* twice the signed (shoelace) area; negative = clockwise (x right, y up)
RECURSIVE Area2From(_,_)
Area2From(v, i) == IF i > Len(v) THEN 0
                   ELSE Cross(<<0,0>>, v[i], v[(i % Len(v)) + 1]) + Area2From(v, i+1)
Area2S(r) == Area2From(StripClose(r), 1)
ClockwiseS(r) == Area2S(r) < 0

\* re-encodings that do not change the point set of a closed ring
Rot(v, k) == [i \in 1..Len(v) |-> v[((i + k - 1) % Len(v)) + 1]]
Rev(v) == [i \in 1..Len(v) |-> v[Len(v) + 1 - i]]
MoveS(r, dx, dy) == [i \in 1..Len(r) |-> <<X(r[i]) + dx, Y(r[i]) + dy>>]

\* a segment search reports exactly the (0-based) positions of the segments
\* whose bounding box meets the query rectangle
SearchSem(r, closed, q) == {i - 1 : i \in {j \in 1..NSegS(r, closed) :
                                  RectMeets(SegRect(SegAtS(r,j)[1], SegAtS(r,j)[2]), q)}}
=============================================================================
