------------------------------- MODULE Gen_C19 -------------------------------
(***************************************************************************)
(* Exhaustive small-scope generator for C19: every segment (degenerate     *)
(* ones included) on the (0..N)^2 lattice is built in two Next steps; for  *)
(* each, one line with the L1 answers against every point and every other *)
(* segment of the lattice is printed for the Go replayer, and the L2       *)
(* transcription is checked against L1 (theorem T1) in the same pass.      *)
(***************************************************************************)
EXTENDS KernelImpl, BigKernel, TLC
CONSTANTS N
VARIABLES a, b
vars == <<a, b>>
M == N + 1
NP == M * M
Pt(i) == <<(i-1) \div M, (i-1) % M>>          \* point index 1..NP, same order as the Go side
None == <<-1,-1>>
Init == a = None /\ b = None
PickA == a = None /\ \E i \in 1..NP : a' = Pt(i) /\ b' = None
PickB == a # None /\ b = None /\ \E i \in 1..NP : b' = Pt(i) /\ a' = a
Next == PickA \/ PickB
Spec == Init /\ [][Next]_vars
Done == a # None /\ b # None
B2I(x) == IF x THEN 1 ELSE 0
RayCode(r) == IF r = "on" THEN 2 ELSE IF r = "in" THEN 1 ELSE 0

\* spec-level theorem T1 (kernel part): the transcription of the code agrees with L1
T1 == Done =>
   /\ \A i \in 1..NP : /\ RaycastL2(a,b,Pt(i)) = RaycastSem(a,b,Pt(i))
                       /\ CollinearPointL2(a,b,Pt(i)) = Collinear(a,b,Pt(i))
   /\ \A i \in 1..NP : \A j \in 1..NP :
         /\ SegIntersectsL2(a,b,Pt(i),Pt(j)) = SegInter(a,b,Pt(i),Pt(j))
         /\ ContainsSegmentL2(a,b,Pt(i),Pt(j)) = SegContains(a,b,Pt(i),Pt(j))
\* T1big: the limb-arithmetic kernels agree with the plain ones (also after scaling by 2^12 = 4096, which
\* exercises the carries: differences up to 2^14 * ... stay below the plain kernels' overflow only for N <= 4)
T1big == Done => \A i \in 1..NP : \A j \in 1..NP :
         LET S(p) == <<4096 * p[1] + 1, 4096 * p[2] - 3>> IN
         /\ SegInterB(a,b,Pt(i),Pt(j)) = SegInter(a,b,Pt(i),Pt(j))
         /\ SegInterB(S(a),S(b),S(Pt(i)),S(Pt(j))) = SegInter(a,b,Pt(i),Pt(j))
         /\ RaycastSemB(S(a),S(b),S(Pt(i))) = RaycastSem(a,b,Pt(i))
         /\ SegContainsB(S(a),S(b),S(Pt(i)),S(Pt(j))) = SegContains(a,b,Pt(i),Pt(j))
\* L1 sanity: intersection is symmetric, containment implies intersection
T1sym == Done => \A i \in 1..NP : \A j \in 1..NP :
         /\ SegInter(a,b,Pt(i),Pt(j)) = SegInter(Pt(i),Pt(j),a,b)
         /\ (SegContains(a,b,Pt(i),Pt(j)) => SegInter(a,b,Pt(i),Pt(j)))
         /\ (OnSeg(Pt(i),a,b) => SegInter(a,b,Pt(i),Pt(i)))

Emit == Done => PrintT(ToString(<<"C19", a, b,
           [i \in 1..NP |-> RayCode(RaycastSem(a,b,Pt(i)))],
           [i \in 1..NP |-> B2I(Collinear(a,b,Pt(i)))],
           [k \in 1..(NP*NP) |-> B2I(SegInter(a,b,Pt(((k-1) \div NP)+1),Pt(((k-1) % NP)+1)))],
           [k \in 1..(NP*NP) |-> B2I(SegContains(a,b,Pt(((k-1) \div NP)+1),Pt(((k-1) % NP)+1)))],
           SegRect(a,b)>>))
=============================================================================
