------------------------------ MODULE Trace_C08 ------------------------------
EXTENDS OptionsSpec, TraceBase
FirstBad(e) == LET bad == {i \in 2..Len(e.runs) : ~Transparent(e.doc, <<e.runs[1], e.runs[i]>>)} IN
               IF bad = {} THEN 0 ELSE CHOOSE i \in bad : \A j \in bad : i <= j
Judge == pos > 0 =>
   LET e == Trace[pos] IN
   IF Transparent(e.doc, e.runs) THEN TRUE
   ELSE PrintT(ToString(<<"MISMATCH", pos, FirstBad(e), IF e.runs[1].accepted THEN ValidDoc(e.doc) ELSE FALSE, "options">>))
=============================================================================
