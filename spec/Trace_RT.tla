------------------------------- MODULE Trace_RT -------------------------------
(***************************************************************************)
(* The same conformance diagnostic for the R-tree machine at MaxEntries =   *)
(* 16: TLC folds the Insert action of RTree.tla over the segments of a       *)
(* recorded series, runs the compressed search of the model and requires the *)
(* callback order of the real compressed R-tree.                             *)
(***************************************************************************)
EXTENDS RTree, Series, TraceBase
SegRects(pts, closed) == [i \in 1..NSegS(pts, closed) |-> SegRect(SegAtS(pts, i)[1], SegAtS(pts, i)[2])]
BuildR(rs) == LET RECURSIVE F(_,_,_)
                  F(rt, ht, i) == IF i > Len(rs) THEN <<rt, ht>>
                                  ELSE LET res == TInsert(rt, ht, [r |-> rs[i], item |-> i - 1]) IN F(<<res[1]>>, res[2], i + 1)
              IN F(<<>>, 0, 1)
ModelHits(e) == LET rs == SegRects(e.pts, e.closed) b == BuildR(rs) IN TSearchC(b[1], b[2], rs, e.q)
RTInit == TInit /\ root = <<>> /\ height = 0 /\ rects = <<>>
RTNext == TNext /\ UNCHANGED <<root, height, rects>>
RTSpec == RTInit /\ [][RTNext]_<<tvars, root, height, rects>>
Judge == pos > 0 =>
   LET e == Trace[pos] IN
   IF ModelHits(e) = e.hits THEN TRUE ELSE PrintT(ToString(<<"MISMATCH", pos, ModelHits(e), "n/a", "rtree.go">>))
=============================================================================
