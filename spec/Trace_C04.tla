------------------------------ MODULE Trace_C04 ------------------------------
(***************************************************************************)
(* Judges Series.Search calls recorded from the real code (no index,       *)
(* compressed R-tree, compressed quadtree; at the real constants) against  *)
(* L1 Series!SearchSem.  A "series" event defines a point sequence; a      *)
(* "search" event refers to it (sref = its line number), optionally moved   *)
(* by (dx,dy), and logs the query rectangle, the stop position of the       *)
(* callback (0 = never stops), the reported position indexes in callback    *)
(* order, the segments passed to the callback (small results only) and the  *)
(* number of callbacks made after the callback returned false.              *)
(* Coordinates may be ranks (order embedding): SearchSem only compares.     *)
(***************************************************************************)
EXTENDS Series, TraceBase
ToSet(s) == {s[i] : i \in DOMAIN s}
SemOf(e) == LET S == Trace[e.sref] IN SearchSem(MoveS(S.pts, e.dx, e.dy), S.closed, e.q)
SegsOK(e) == LET S == Trace[e.sref] pts == MoveS(S.pts, e.dx, e.dy) IN
             \A i \in 1..Len(e.segs) : e.segs[i] = <<SegAtS(pts, e.hits[i] + 1)[1], SegAtS(pts, e.hits[i] + 1)[2]>>
Good(e) ==
   IF e.op = "series" THEN e.nseg = NSegS(e.pts, e.closed)
   ELSE IF e.op = "panic" THEN FALSE                                       \* building or searching an index must not panic
   ELSE LET sem == SemOf(e) hs == ToSet(e.hits) IN
        /\ Cardinality(hs) = Len(e.hits)                                    \* each exactly once
        /\ hs \subseteq sem                                                 \* only segments whose box meets the query
        /\ IF e.stop = 0 THEN hs = sem ELSE Len(e.hits) = Min(e.stop, Cardinality(sem))
        /\ e.after = 0                                                      \* no callback after the callback returned false
        /\ SegsOK(e)                                                        \* each with its correct position index
Judge == pos > 0 =>
   LET e == Trace[pos] IN
   IF Good(e) THEN TRUE
   ELSE PrintT(ToString(<<"MISMATCH", pos, IF e.op = "series" THEN NSegS(e.pts, e.closed) ELSE IF e.op = "panic" THEN -1 ELSE Cardinality(SemOf(e)), "n/a", "series.go:Search">>))
=============================================================================
