------------------------------ MODULE TraceBase ------------------------------
(***************************************************************************)
(* Validation of a trace of INDEPENDENT events recorded from the real code *)
(* (each event is one public call with all arguments and its reply).       *)
(* The trace is cut into chunks so that TLC workers validate it in         *)
(* parallel: one state per event; the importing module supplies Judge(e),  *)
(* which compares the logged reply with the specification.  Acceptance:    *)
(* the number of distinct states must be 1 + NChunks + Len(Trace).         *)
(***************************************************************************)
EXTENDS Integers, Sequences, TLC, Json, IOUtils
Trace == ndJsonDeserialize(IOEnv.TRACE)
NChunks == 32
VARIABLES chunk, pos
tvars == <<chunk, pos>>
TLen == Len(Trace)
ChunkOf(j) == ((j - 1) % NChunks) + 1
TInit == chunk = 0 /\ pos = 0
PickChunk == chunk = 0 /\ \E k \in 1..NChunks : chunk' = k /\ pos' = 0
PickEvent == chunk > 0 /\ pos = 0 /\ \E j \in {k \in 1..TLen : ChunkOf(k) = chunk} : pos' = j /\ chunk' = chunk
TNext == PickChunk \/ PickEvent
TSpec == TInit /\ [][TNext]_tvars
=============================================================================
