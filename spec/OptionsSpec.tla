------------------------------ MODULE OptionsSpec ------------------------------
(***************************************************************************)
(* L1 for C08: ParseOptions never change what an object means.             *)
(* An "opts" trace event carries one document and the observations of the  *)
(* real Parse under a list of option sets; run 1 uses the default options. *)
(*   class "index": IndexChildren / IndexGeometry / IndexGeometryKind vary  *)
(*       -> nothing observable changes;                                    *)
(*   class "repr":  AllowSimplePoints / AllowRects                          *)
(*       -> JSON, every predicate answer and Circle recognition unchanged;  *)
(*   class "rv":    RequireValid                                            *)
(*       -> accepted exactly when accepted without it and every position of *)
(*          every nested object is a valid longitude / latitude, and then   *)
(*          the object reports itself valid and means the same.             *)
(***************************************************************************)
EXTENDS GeoDoc
\* number tokens 8 and 9 are out of range in every table of the harness
LonOK(v) == IsNum(v) /\ v[2] # 9
LatOK(v) == IsNum(v) /\ v[2] \notin {8, 9}
PosValid(p) == IsArr(p) /\ Len(Items(p)) >= 2 /\ LonOK(Items(p)[1]) /\ LatOK(Items(p)[2])
RECURSIVE AllPos(_,_), ValidDoc(_)
\* every position found at nesting depth `depth` below v
AllPos(v, depth) == IF depth = 0 THEN PosValid(v)
                    ELSE IsArr(v) /\ \A i \in 1..Len(Items(v)) : AllPos(Items(v)[i], depth - 1)
ValidDoc(d) ==
   LET t == Get(d, "type")[2] IN
   CASE t = "Point" -> AllPos(Get(d, "coordinates"), 0)
     [] t \in {"MultiPoint", "LineString"} -> AllPos(Get(d, "coordinates"), 1)
     [] t \in {"Polygon", "MultiLineString"} -> AllPos(Get(d, "coordinates"), 2)
     [] t = "MultiPolygon" -> AllPos(Get(d, "coordinates"), 3)
     [] t = "GeometryCollection" -> \A i \in 1..Len(Items(Get(d, "geometries"))) : ValidDoc(Items(Get(d, "geometries"))[i])
     [] t = "FeatureCollection" -> \A i \in 1..Len(Items(Get(d, "features"))) : ValidDoc(Items(Get(d, "features"))[i])
     [] t = "Feature" -> ValidDoc(Get(d, "geometry"))
Transparent(doc, runs) ==
   LET base == runs[1]
       \* runs with the Circle convention switched off (DisableCircleType) form a group of their own around "dbase"
       hasD == \E k \in 1..Len(runs) : runs[k].class = "dbase"
       dbase == IF hasD THEN runs[CHOOSE k \in 1..Len(runs) : runs[k].class = "dbase"] ELSE base
   IN
   \A i \in 2..Len(runs) : LET r == runs[i] IN
     \* (a document may be rejected only because its Circle properties are malformed: with the convention off it is a plain Feature)
     CASE r.class = "dbase" -> (base.accepted => r.accepted) /\ (r.accepted => ~r.circle)
       [] r.class = "dindex" -> /\ r.accepted = dbase.accepted
                                /\ (r.accepted => r.json = dbase.json /\ r.obs = dbase.obs /\ r.ans = dbase.ans /\ r.circle = dbase.circle)
       [] r.class = "drepr" -> /\ r.accepted = dbase.accepted
                               /\ (r.accepted => r.json = dbase.json /\ r.ans = dbase.ans /\ r.circle = dbase.circle)
       [] r.class = "index" -> /\ r.accepted = base.accepted
                               /\ (r.accepted => r.json = base.json /\ r.obs = base.obs /\ r.ans = base.ans /\ r.circle = base.circle)
       [] r.class = "repr" -> /\ r.accepted = base.accepted
                              /\ (r.accepted => r.json = base.json /\ r.ans = base.ans /\ r.circle = base.circle)
       [] r.class = "rv" -> /\ r.accepted = (base.accepted /\ ValidDoc(doc))
                            /\ (r.accepted => r.valid /\ r.json = base.json /\ r.ans = base.ans /\ r.circle = base.circle)
=============================================================================
