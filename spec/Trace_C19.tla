------------------------------ MODULE Trace_C19 ------------------------------
(***************************************************************************)
(* Judges events recorded from the real segment kernels                    *)
(* (geometry.Segment.Raycast / IntersectsSegment / ContainsSegment /       *)
(* ContainsPoint / CollinearPoint) against L1 (Kernel).  For every event   *)
(* whose logged reply differs from L1 a MISMATCH line with the L2          *)
(* prediction (KernelImpl, the transcription of the pinned algorithm) and  *)
(* its decision site is printed for the verdict (DESIGN.md section 4).     *)
(***************************************************************************)
EXTENDS KernelImpl, BigKernel, TraceBase
RayCode(r) == IF r = "on" THEN 2 ELSE IF r = "in" THEN 1 ELSE 0
Exp(e) ==
   CASE e.op = "ray" -> RayCode(RaycastSem(e.a, e.b, e.p))
     [] e.op = "cpt" -> OnSeg(e.p, e.a, e.b)
     [] e.op = "col" -> Collinear(e.a, e.b, e.p)
     [] e.op = "int" -> SegInter(e.a, e.b, e.c, e.d)
     [] e.op = "con" -> SegContains(e.a, e.b, e.c, e.d)
     [] e.op = "rect" -> SegRect(e.a, e.b)
\* events marked big carry coordinates up to 2^20: judged with the limb-arithmetic kernels
ExpBig(e) ==
   CASE e.op = "ray" -> RayCode(RaycastSemB(e.a, e.b, e.p))
     [] e.op = "cpt" -> OnSegB(e.p, e.a, e.b)
     [] e.op = "col" -> CollinearB(e.a, e.b, e.p)
     [] e.op = "int" -> SegInterB(e.a, e.b, e.c, e.d)
     [] e.op = "con" -> SegContainsB(e.a, e.b, e.c, e.d)
IsBig(e) == "big" \in DOMAIN e
Pred(e) ==
   CASE e.op = "ray" -> <<RayCode(RaycastL2(e.a, e.b, e.p)), "raycast.go">>
     [] e.op = "cpt" -> <<ContainsPointL2(e.a, e.b, e.p), "segment.go:46">>
     [] e.op = "col" -> <<CollinearPointL2(e.a, e.b, e.p), "segment.go:42">>
     [] e.op = "int" -> SegIntersectsSiteL2(e.a, e.b, e.c, e.d)
     [] e.op = "con" -> <<ContainsSegmentL2(e.a, e.b, e.c, e.d), "segment.go:135">>
     [] e.op = "rect" -> <<SegRect(e.a, e.b), "segment.go:25">>
Bad(e) == "bad" \in DOMAIN e     \* replay-side mismatch on a non-lattice value (e.g. a rectangle)
Judge == pos > 0 =>
   LET e == Trace[pos] IN
   IF IsBig(e) THEN (e.got = ExpBig(e) \/ PrintT(ToString(<<"MISMATCH", pos, ExpBig(e), "n/a", "large coordinates">>)))
   ELSE IF ~Bad(e) /\ e.got = Exp(e) THEN TRUE
   ELSE PrintT(ToString(<<"MISMATCH", pos, Exp(e), Pred(e)[1], Pred(e)[2]>>))
=============================================================================
