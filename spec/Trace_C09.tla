------------------------------ MODULE Trace_C09 ------------------------------
(***************************************************************************)
(* C09: the algebra laws on recorded real answers of object pairs (used    *)
(* for the pairs that involve Circles, for which no planar L1 exists):     *)
(*   A.Within(B) = B.Contains(A);  A.Intersects(B) = B.Intersects(A);       *)
(*   A contains a non-empty B  =>  A intersects B and Rect(A) covers Rect(B);*)
(*   A intersects B  =>  their rectangles intersect;                        *)
(*   a non-empty valid object contains and intersects itself.               *)
(* The same laws are recorded for a set of "wild" planar leaves (holes,     *)
(* degenerate rectangles, lines along hole boundaries) without using L1.    *)
(***************************************************************************)
EXTENDS TraceBase
Laws(e) == /\ e.out = "ok"
           /\ e.BwA = e.AcB /\ e.AwB = e.BcA
           /\ e.AiB = e.BiA
           /\ (e.AcB /\ ~e.emptyB => e.AiB /\ e.rectAcoversB)
           /\ (e.AiB => e.rectsMeet)
           /\ (~e.emptyA /\ e.validA => e.AcA /\ e.AiA)
Which(e) == IF e.out # "ok" THEN "abnormal outcome" ELSE IF e.BwA # e.AcB \/ e.AwB # e.BcA THEN "within/contains duality"
            ELSE IF e.AiB # e.BiA THEN "intersects symmetry"
            ELSE IF e.AcB /\ ~e.emptyB /\ ~(e.AiB /\ e.rectAcoversB) THEN "contains => intersects and rectangle covered"
            ELSE IF e.AiB /\ ~e.rectsMeet THEN "intersects => rectangles meet" ELSE "self containment"
\* transparency: two representations of one point set (Rect / five-point Polygon, Point / SimplePoint, Feature / its
\* geometry) give the same six answers against the same partner
Judge == pos > 0 =>
   LET e == Trace[pos] IN
   IF e.op = "equiv" THEN (IF e.r1 = e.r2 THEN TRUE ELSE PrintT(ToString(<<"MISMATCH", pos, "representations answer differently", "n/a", "equiv">>)))
   ELSE IF Laws(e) THEN TRUE ELSE PrintT(ToString(<<"MISMATCH", pos, Which(e), "n/a", "laws">>))
=============================================================================
