------------------------------- MODULE Gen_C17 -------------------------------
(* The universe of constructor-built objects for C17 (see WriterSpec). *)
EXTENDS WriterSpec, TLC
VARIABLE k
P(x, y) == <<x, y>>
Sq == <<P(0,0), P(2,0), P(2,2), P(0,2), P(0,0)>>
Leaves == <<
   <<"Point", P(1,2)>>, <<"Point", P(NaN,2)>>, <<"Point", P(1,PInf)>>, <<"Point", P(NInf,NZero)>>,
   <<"PointZ", P(1,2), 3>>, <<"PointZ", P(1,2), NaN>>, <<"PointZ", P(NZero,NInf), PInf>>,
   <<"SimplePoint", P(NZero,3)>>, <<"SimplePoint", P(NaN,NaN)>>,
   <<"LineString", <<>>>>, <<"LineString", <<P(1,2)>>>>, <<"LineString", <<P(1,2), P(NaN,NInf), P(3,4)>>>>,
   <<"Polygon", <<>>>>, <<"Polygon", <<<<P(0,0), P(1,1)>>>>>>, <<"Polygon", <<Sq>>>>,
   <<"Polygon", <<<<P(0,0), P(4,0), P(PInf,4), P(0,NaN), P(0,0)>>, <<P(1,1), P(2,1), P(2,NZero), P(1,1)>>>>>>,
   <<"Rect", P(1,2), P(3,4)>>, <<"Rect", P(NInf,NInf), P(PInf,PInf)>>, <<"Rect", P(NZero,NaN), P(1,1)>>,
   <<"MultiPoint", <<>>>>, <<"MultiPoint", <<P(1,2), P(NaN,PInf)>>>>,
   <<"MultiLineString", <<<<P(1,2), P(3,NaN)>>, <<>>, <<P(5,6)>>>>>>,
   <<"MultiPolygon", <<<<>>, <<Sq>>, <<<<P(0,0), P(NInf,0), P(0,1), P(0,0)>>>>>>>>,
   <<"Circle", P(1,2), 5, 8>>, <<"Circle", P(NaN,2), -999, 3>>, <<"Circle", P(1,NZero), 0, 64>>, <<"Circle", P(3,3), PInf, 12>>,
   \* degenerate rectangles (a point, a horizontal and a vertical segment, zero of both signs): still Polygons
   <<"Rect", P(1,2), P(1,2)>>, <<"Rect", P(1,2), P(3,2)>>, <<"Rect", P(1,2), P(1,4)>>, <<"Rect", P(NZero,0), P(0,NZero)>>,
   <<"Point", P(0,0)>>, <<"LineString", <<P(1,2), P(1,2)>>>>, <<"Polygon", <<<<P(1,1), P(1,1), P(1,1), P(1,1)>>>>>>,
   <<"MultiPoint", <<P(1,2)>>>>, <<"MultiLineString", <<>>>>, <<"MultiPolygon", <<>>>>
>>
NLv == Len(Leaves)
Colls == <<
   <<"GeometryCollection", <<>>>>,
   <<"GeometryCollection", <<Leaves[2], Leaves[12], Leaves[16], Leaves[24]>>>>,
   <<"GeometryCollection", <<<<"GeometryCollection", <<Leaves[7], <<"Feature", Leaves[18]>>>>>>, Leaves[13]>>>>,
   <<"FeatureCollection", <<>>>>,
   <<"FeatureCollection", <<<<"Feature", Leaves[4]>>, <<"Feature", Leaves[23]>>, Leaves[21]>>>>,
   <<"FeatureCollection", <<<<"FeatureCollection", <<<<"Feature", Leaves[25]>>>>>>>>>>
>>
All == Leaves \o [j \in 1..NLv |-> <<"Feature", Leaves[j]>>] \o Colls \o [j \in 1..Len(Colls) |-> <<"Feature", Colls[j]>>]
Init == k = 0
Next == k = 0 /\ \E j \in 1..Len(All) : k' = j
Spec == Init /\ [][Next]_k
Emit == k > 0 => PrintT(ToString(<<"OBJ", All[k]>>))
=============================================================================
