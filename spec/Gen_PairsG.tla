------------------------------ MODULE Gen_PairsG ------------------------------
(***************************************************************************)
(* Pair answers by the general-slope definitions of PlanarGeneral.  Reads   *)
(* shapes from IOEnv.SHAPES (s = shape, a = 1 for receivers, m = witness     *)
(* mask when the shape is octilinear) and prints for every receiver A        *)
(*     code = 2 * ContainsG(A,B) + IntersectsG(A,B)   against every shape B. *)
(* With CheckMasks = TRUE (octilinear universe) theorem TG is checked on     *)
(* every pair: the general definitions agree with the witness-grid ones.     *)
(* Laws: IntersectsG symmetric, ContainsG => IntersectsG.                    *)
(***************************************************************************)
EXTENDS PlanarGeneral, TLC, Json, IOUtils
CONSTANTS CheckMasks, Stride, Phase     \* receivers k with k % Stride = Phase are treated
Sh == ndJsonDeserialize(IOEnv.SHAPES)
NS == Len(Sh)
AIdx == TLCEval(SelectSeq([i \in 1..NS |-> i], LAMBDA i : Sh[i].a = 1 /\ i % Stride = Phase))
NA == Len(AIdx)
VARIABLES a
Init == a = 0
Next == a = 0 /\ \E k \in 1..NA : a' = AIdx[k]
Spec == Init /\ [][Next]_a
Shape(i) == Sh[i].s
Mask(i) == {k \in 1..Len(Sh[i].m) : Sh[i].m[k] = 1}
Code(i, j) == (IF ContainsG(Shape(i), Shape(j)) THEN 2 ELSE 0) + (IF IntersectsG(Shape(i), Shape(j)) THEN 1 ELSE 0)
TG == (a > 0 /\ CheckMasks) => \A j \in 1..NS :
         /\ IntersectsG(Shape(a), Shape(j)) = (Mask(a) \cap Mask(j) # {})
         /\ ContainsG(Shape(a), Shape(j)) = (Mask(j) # {} /\ Mask(j) \subseteq Mask(a))
Laws == a > 0 => \A j \in 1..NS : /\ IntersectsG(Shape(a), Shape(j)) = IntersectsG(Shape(j), Shape(a))
                                  /\ (ContainsG(Shape(a), Shape(j)) => IntersectsG(Shape(a), Shape(j)))
Emit == a > 0 => PrintT(ToString(<<"PAIR", a, [j \in 1..NS |-> Code(a, j)]>>))
=============================================================================
