-------------------------------- MODULE GeoDoc --------------------------------
(***************************************************************************)
(* L1 -- what a GeoJSON document SAYS (C07).  Verdict transcribes the       *)
(* accept / reject lists of the property literally and is three-valued:     *)
(* "acc" (must be accepted), "rej" (has a listed structural defect: must be *)
(* rejected), "uns" (in neither list, e.g. a five-number position, a null   *)
(* ordinate in a Point, a null Feature geometry): nothing is asserted.      *)
(* A listed defect anywhere wins over an unspecified aspect.                *)
(* Decode gives, for an accepted document, the object tree it denotes:      *)
(* type, nesting, child order and the x,y tokens of every position.         *)
(***************************************************************************)
EXTENDS JsonAst
Types9 == {"Point", "LineString", "Polygon", "MultiPoint", "MultiLineString", "MultiPolygon",
           "GeometryCollection", "Feature", "FeatureCollection"}
Comb(vs) == IF "rej" \in vs THEN "rej" ELSE IF "uns" \in vs THEN "uns" ELSE "acc"
MinI(a, b) == IF a < b THEN a ELSE b

\* a position: an array of two to four numbers
PosV(v, allowNull) ==
   IF ~IsArr(v) THEN "uns"
   ELSE LET n == Len(Items(v)) first == 1..MinI(4, n) IN
        IF n < 2 THEN "rej"                                                      \* fewer than two ordinates
        ELSE IF \E i \in first : ~IsNum(Items(v)[i]) /\ ~(allowNull /\ IsNull(Items(v)[i])) THEN "rej"  \* non-numeric among its first four
        ELSE IF \E i \in first : IsNull(Items(v)[i]) THEN "uns"                   \* null ordinate: allowed, not "numbers"
        ELSE IF n > 4 THEN "uns"
        ELSE "acc"
PosXY(v) == <<Items(v)[1][2], Items(v)[2][2]>>            \* the x and y number tokens
\* the coordinates of a line string: at least two positions
LineV(v) == IF ~IsArr(v) THEN "uns"
            ELSE Comb({PosV(Items(v)[i], FALSE) : i \in 1..Len(Items(v))} \cup (IF Len(Items(v)) < 2 THEN {"rej"} ELSE {}))
\* a polygon ring: at least four positions, first equal to last
RingV(v) == IF ~IsArr(v) THEN "uns"
            ELSE LET n == Len(Items(v))
                     pv == Comb({PosV(Items(v)[i], FALSE) : i \in 1..n})
                 IN IF n < 4 THEN "rej"
                    ELSE IF pv # "acc" THEN pv
                    ELSE IF PosXY(Items(v)[1]) # PosXY(Items(v)[n]) THEN "rej"   \* not closed
                    ELSE IF Items(v)[1] # Items(v)[n] THEN "uns"                  \* closed in x,y, other ordinates differ
                    ELSE "acc"
PolyV(v) == IF ~IsArr(v) THEN "uns"
            ELSE IF Len(Items(v)) = 0 THEN "rej"                                  \* a polygon with no ring
            ELSE Comb({RingV(Items(v)[i]) : i \in 1..Len(Items(v))})
ArrOf(v, F(_)) == Comb({F(Items(v)[i]) : i \in 1..Len(Items(v))})

RECURSIVE Verdict(_)
Verdict(d) ==
   IF ~IsObj(d) THEN "rej"                                                        \* not an object
   ELSE LET t == Get(d, "type") IN
   IF t = None \/ ~IsStr(t) THEN "rej"                                            \* missing / non-string type
   ELSE IF t[2] \notin Types9 THEN "rej"                                          \* unknown type
   ELSE LET key == CASE t[2] = "GeometryCollection" -> "geometries" [] t[2] = "FeatureCollection" -> "features"
                     [] t[2] = "Feature" -> "geometry" [] OTHER -> "coordinates"
            m == Get(d, key)
        IN
   IF m = None THEN "rej"                                                         \* missing required member
   ELSE IF t[2] = "Feature" THEN (IF IsNull(m) THEN "uns" ELSE Verdict(m))
   ELSE IF ~IsArr(m) THEN "rej"                                                   \* required member is not an array
   ELSE CASE t[2] = "Point" -> PosV(m, TRUE)
          [] t[2] = "MultiPoint" -> ArrOf(m, LAMBDA x : PosV(x, TRUE))
          [] t[2] = "LineString" -> LineV(m)
          [] t[2] = "MultiLineString" -> ArrOf(m, LineV)
          [] t[2] = "Polygon" -> PolyV(m)
          [] t[2] = "MultiPolygon" -> ArrOf(m, PolyV)
          [] OTHER -> ArrOf(m, Verdict)                                            \* collections: arrays of such objects

RECURSIVE Decode(_)
Decode(d) ==
   LET t == Get(d, "type")[2]
       PtsOf(v) == [i \in 1..Len(Items(v)) |-> PosXY(Items(v)[i])]
       RingsOf(v) == [i \in 1..Len(Items(v)) |-> PtsOf(Items(v)[i])]
   IN CASE t = "Point" -> <<t, PosXY(Get(d, "coordinates"))>>
        [] t \in {"LineString", "MultiPoint"} -> <<t, PtsOf(Get(d, "coordinates"))>>
        [] t \in {"Polygon", "MultiLineString"} -> <<t, RingsOf(Get(d, "coordinates"))>>
        [] t = "MultiPolygon" -> <<t, [i \in 1..Len(Items(Get(d, "coordinates"))) |-> RingsOf(Items(Get(d, "coordinates"))[i])]>>
        [] t = "GeometryCollection" -> <<t, [i \in 1..Len(Items(Get(d, "geometries"))) |-> Decode(Items(Get(d, "geometries"))[i])]>>
        [] t = "FeatureCollection" -> <<t, [i \in 1..Len(Items(Get(d, "features"))) |-> Decode(Items(Get(d, "features"))[i])]>>
        [] t = "Feature" -> <<t, Decode(Get(d, "geometry"))>>
=============================================================================
