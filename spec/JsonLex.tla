------------------------------- MODULE JsonLex -------------------------------
(* L1 of "is valid JSON" at the byte level (RFC 8259): a pushdown automaton over byte
   classes ("atoms").  C07 rejects every text that is "not valid JSON" and C05 asks Parse to be
   total on any byte string; the document universe of Gen_Doc starts from JSON values, so the
   lexical layer is specified here.  A state is a record
       m   : mode            (what the automaton is in the middle of)
       st  : stack           (sequence of "o" / "a": the open containers, bottom first)
       lit : remaining atoms of a literal (true / false / null) being read
       key : the string being read is an object key
   The implementation delegates this layer to gjson.Valid; the specification does not. *)
EXTENDS Naturals, Sequences

\* atoms = byte classes.  The harness renders every atom by several representative bytes.
LBrace == 1  RBrace == 2  LBrack == 3  RBrack == 4  Colon == 5  Comma == 6  Quote == 7  BSlash == 8
Space == 9      \* 0x20: whitespace outside strings, ordinary character inside
Zero == 10  Digit == 11      \* '0' ; '1'..'9'
Minus == 12  Plus == 13  Dot == 14
AtE == 15       \* 'e' (hex digit, exponent mark, letter of true / false)
AtT == 16  AtR == 17  AtU == 18  AtF == 19  AtA == 20  AtL == 21  AtS == 22  AtN == 23  AtB == 24
Slash == 25
Ctl == 26       \* 0x00..0x1F other than \t \n \r: never allowed
TabWs == 27     \* \t \n \r: whitespace outside strings, forbidden inside
Other == 28     \* any other byte >= 0x20 (letters, punctuation, bytes >= 0x80): only inside strings
HexC == 29      \* 'c' 'd' 'A'..'D' 'F' (hex digit, otherwise like Other)
BigE == 30      \* 'E' (hex digit, exponent mark, but not a letter of true / false)
Atoms == 1..30

IsWs(a) == a \in {Space, TabWs}
IsDigit(a) == a \in {Zero, Digit}
IsHex(a) == a \in {Zero, Digit, AtE, AtF, AtA, AtB, HexC, BigE}
IsExp(a) == a \in {AtE, BigE}
EscOK == {Quote, BSlash, Slash, AtB, AtF, AtN, AtR, AtT}

S(m, st) == [m |-> m, st |-> st, lit |-> <<>>, key |-> FALSE]
Dead == S("dead", <<>>)
Top(st) == st[Len(st)]
Pop(st) == SubSeq(st, 1, Len(st) - 1)
AfterValue(st) == IF st = <<>> THEN S("done", st) ELSE S("after", st)
NumDone == {"zero", "int", "frac", "exp"}       \* modes in which a complete number has been read

StartValue(st, a) ==
   CASE a = LBrace -> S("okey", Append(st, "o"))
     [] a = LBrack -> S("aval", Append(st, "a"))
     [] a = Quote  -> S("str", st)
     [] a = Minus  -> S("minus", st)
     [] a = Zero   -> S("zero", st)
     [] a = Digit  -> S("int", st)
     [] a = AtT    -> [S("lit", st) EXCEPT !.lit = <<AtR, AtU, AtE>>]
     [] a = AtF    -> [S("lit", st) EXCEPT !.lit = <<AtA, AtL, AtS, AtE>>]
     [] a = AtN    -> [S("lit", st) EXCEPT !.lit = <<AtU, AtL, AtL>>]
     [] OTHER      -> Dead

\* what the automaton does between tokens
Between(s, a) ==
   LET st == s.st IN
   CASE s.m = "val"   -> IF IsWs(a) THEN s ELSE StartValue(st, a)
     [] s.m = "aval"  -> IF IsWs(a) THEN s ELSE IF a = RBrack THEN AfterValue(Pop(st)) ELSE StartValue(st, a)
     [] s.m = "okey"  -> IF IsWs(a) THEN s ELSE IF a = RBrace THEN AfterValue(Pop(st))
                         ELSE IF a = Quote THEN [S("str", st) EXCEPT !.key = TRUE] ELSE Dead
     [] s.m = "key"   -> IF IsWs(a) THEN s ELSE IF a = Quote THEN [S("str", st) EXCEPT !.key = TRUE] ELSE Dead
     [] s.m = "colon" -> IF IsWs(a) THEN s ELSE IF a = Colon THEN S("val", st) ELSE Dead
     [] s.m = "after" -> IF IsWs(a) THEN s
                         ELSE IF a = Comma THEN (IF Top(st) = "o" THEN S("key", st) ELSE S("val", st))
                         ELSE IF a = RBrace /\ Top(st) = "o" THEN AfterValue(Pop(st))
                         ELSE IF a = RBrack /\ Top(st) = "a" THEN AfterValue(Pop(st))
                         ELSE Dead
     [] s.m = "done"  -> IF IsWs(a) THEN s ELSE Dead
     [] OTHER -> Dead

Step(s, a) ==
   LET st == s.st IN
   CASE s.m \in {"val", "aval", "okey", "key", "colon", "after", "done"} -> Between(s, a)
     [] s.m = "minus" -> IF a = Zero THEN S("zero", st) ELSE IF a = Digit THEN S("int", st) ELSE Dead
     [] s.m = "zero"  -> IF a = Dot THEN S("dot", st) ELSE IF IsExp(a) THEN S("e", st) ELSE Between(AfterValue(st), a)
     [] s.m = "int"   -> IF IsDigit(a) THEN s ELSE IF a = Dot THEN S("dot", st) ELSE IF IsExp(a) THEN S("e", st) ELSE Between(AfterValue(st), a)
     [] s.m = "dot"   -> IF IsDigit(a) THEN S("frac", st) ELSE Dead
     [] s.m = "frac"  -> IF IsDigit(a) THEN s ELSE IF IsExp(a) THEN S("e", st) ELSE Between(AfterValue(st), a)
     [] s.m = "e"     -> IF a \in {Plus, Minus} THEN S("esign", st) ELSE IF IsDigit(a) THEN S("exp", st) ELSE Dead
     [] s.m = "esign" -> IF IsDigit(a) THEN S("exp", st) ELSE Dead
     [] s.m = "exp"   -> IF IsDigit(a) THEN s ELSE Between(AfterValue(st), a)
     [] s.m = "str"   -> IF a = Quote THEN (IF s.key THEN S("colon", st) ELSE AfterValue(st))
                         ELSE IF a = BSlash THEN [s EXCEPT !.m = "esc"]
                         ELSE IF a \in {Ctl, TabWs} THEN Dead ELSE s
     [] s.m = "esc"   -> IF a \in EscOK THEN [s EXCEPT !.m = "str"] ELSE IF a = AtU THEN [s EXCEPT !.m = "u1"] ELSE Dead
     [] s.m = "u1"    -> IF IsHex(a) THEN [s EXCEPT !.m = "u2"] ELSE Dead
     [] s.m = "u2"    -> IF IsHex(a) THEN [s EXCEPT !.m = "u3"] ELSE Dead
     [] s.m = "u3"    -> IF IsHex(a) THEN [s EXCEPT !.m = "u4"] ELSE Dead
     [] s.m = "u4"    -> IF IsHex(a) THEN [s EXCEPT !.m = "str"] ELSE Dead
     [] s.m = "lit"   -> IF a = Head(s.lit) THEN (IF Len(s.lit) = 1 THEN AfterValue(st) ELSE [s EXCEPT !.lit = Tail(s.lit)]) ELSE Dead
     [] OTHER -> Dead

RECURSIVE Run(_, _)
Run(s, w) == IF w = <<>> THEN s ELSE Run(Step(s, Head(w)), Tail(w))

\* the text is complete: one value has been read (a top-level number ends with the text)
Final(s) == s.m = "done" \/ (s.m \in NumDone /\ s.st = <<>>)
ValidJSON(w) == Final(Run(S("val", <<>>), w))

\* a short way to finish the token the automaton is in (strings are finished with a space before the closing quote:
\* whitespace inside a string is content and must survive)
FinishToken(s) ==
   CASE s.m \in {"val", "minus", "dot", "e", "esign"} -> <<Zero>>
     [] s.m = "aval"  -> <<RBrack>>
     [] s.m = "okey"  -> <<RBrace>>
     [] s.m = "key"   -> <<Quote, Quote, Colon, Zero>>
     [] s.m = "colon" -> <<Colon, Zero>>
     [] s.m = "str"   -> IF s.key THEN <<Space, Quote, Colon, Zero>> ELSE <<Space, Quote>>
     [] s.m = "esc"   -> IF s.key THEN <<AtN, Space, Quote, Colon, Zero>> ELSE <<AtN, Space, Quote>>
     [] s.m \in {"u1", "u2", "u3", "u4"} ->
           LET pad == CASE s.m = "u1" -> <<Zero, AtA, HexC, Digit>> [] s.m = "u2" -> <<AtF, Zero, Digit>> [] s.m = "u3" -> <<AtB, AtE>> [] OTHER -> <<HexC>>
           IN pad \o (IF s.key THEN <<Space, Quote, Colon, Zero>> ELSE <<Space, Quote>>)
     [] s.m = "lit"   -> s.lit
     [] OTHER -> <<>>
RECURSIVE CloseTo(_, _)
CloseTo(st, n) == IF Len(st) <= n THEN <<>> ELSE <<IF Top(st) = "o" THEN RBrace ELSE RBrack>> \o CloseTo(Pop(st), n)
\* finish the token and close the containers opened above level n
CompleteTo(s, n) == IF s.m = "dead" THEN <<>> ELSE LET f == FinishToken(s) IN f \o CloseTo(Run(s, f).st, n)
=============================================================================
