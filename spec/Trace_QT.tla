------------------------------- MODULE Trace_QT -------------------------------
(***************************************************************************)
(* Binds the QuadTree machine to the code AT THE REAL CONSTANTS             *)
(* (MaxItems = 32, MaxDepth = 16, byte radix 256).  A "qt" event is a series *)
(* (coordinates are multiples of 2^16, so that every midline down to depth  *)
(* 16 is integral), a query rectangle and the position indexes the real      *)
(* compressed quadtree reported IN CALLBACK ORDER.  TLC rebuilds the model   *)
(* tree by folding the Insert action over the segments, runs the compressed  *)
(* search of the model and requires the SAME SEQUENCE: any structural        *)
(* deviation of the real tree (item placement, split, overflow lists, quad    *)
(* order) would change the order.  This is a conformance diagnostic (the     *)
(* property only fixes the set); a difference is reported as model drift.    *)
(***************************************************************************)
EXTENDS QuadTree, Series, TraceBase
SegRects(pts, closed) == [i \in 1..NSegS(pts, closed) |-> SegRect(SegAtS(pts, i)[1], SegAtS(pts, i)[2])]
BuildQ(rb, rs) == LET RECURSIVE F(_,_)
                      F(t, i) == IF i > Len(rs) THEN t ELSE F(InsIn(rb, t, rs, <<>>, i - 1), i + 1)
                  IN F([p \in {<<>>} |-> EmptyNode], 1)
ModelHits(e) == LET rs == SegRects(e.pts, e.closed) rb == BBoxS(e.pts) IN SearchCIn(rb, BuildQ(rb, rs), rs, <<>>, e.q)
QTInit == TInit /\ tree = <<>> /\ rects = <<>>
QTNext == TNext /\ UNCHANGED <<tree, rects>>
QTSpec == QTInit /\ [][QTNext]_<<tvars, tree, rects>>
Judge == pos > 0 =>
   LET e == Trace[pos] IN
   IF ModelHits(e) = e.hits THEN TRUE ELSE PrintT(ToString(<<"MISMATCH", pos, ModelHits(e), "n/a", "qtree.go">>))
=============================================================================
