------------------------------ MODULE ObjectsPred ------------------------------
(***************************************************************************)
(* L1 -- the object-level predicates of C09 / C10, following the TEXT of    *)
(* the properties.  Objects are                                             *)
(*    <<"leaf", i>>            the i-th leaf of the table Lf (a lattice      *)
(*                             shape with its witness mask, see PlanarPairs; *)
(*                             Lf[i].k is the object kind it is built as)    *)
(*    <<"emp", kind>>          an empty leaf (LineString / Polygon without   *)
(*                             enough positions)                             *)
(*    <<"feat", o>>            a Feature around o                            *)
(*    <<"coll", kind, kids>>   MultiPoint / MultiLineString / MultiPolygon / *)
(*                             GeometryCollection / FeatureCollection        *)
(* Semantics: a Feature answers as its geometry; leaves answer as the        *)
(* geometry-level predicates (witness masks); a collection                   *)
(*   intersects X  iff some non-empty child intersects some non-empty part   *)
(*                     of X,                                                 *)
(*   contains X    iff X has a non-empty part and every non-empty part of X  *)
(*                     is contained by some single child,                    *)
(*   is within X   iff it is non-empty and EVERY child is within X.          *)
(* The operators take a parameter `strip`: TRUE gives L1 (a Feature is       *)
(* transparent when an object is split into parts); FALSE transcribes what   *)
(* Feature.ForEach does (the Feature itself is one part) -- the L2 variant   *)
(* used to recognise the corresponding known finding.                        *)
(***************************************************************************)
EXTENDS Integers, Sequences, FiniteSets, TLC, Json, IOUtils
Lf == ndJsonDeserialize(IOEnv.LEAVES)
NLf == Len(Lf)
MaskTab == TLCEval([i \in 1..NLf |-> {k \in 1..Len(Lf[i].m) : Lf[i].m[k] = 1}])
RectTab == TLCEval([i \in 1..NLf |-> Lf[i].r])                  \* <<minx,miny,maxx,maxy>>
OTag(o) == o[1]
Strip(o) == IF OTag(o) = "feat" THEN o[2] ELSE o
RECURSIVE StripAll(_)
StripAll(o) == IF OTag(o) = "feat" THEN StripAll(o[2]) ELSE o
RECURSIVE IsEmpty(_), Parts(_,_), RectOf(_)
IsEmpty(o) == CASE OTag(o) = "leaf" -> FALSE
                [] OTag(o) = "emp" -> TRUE
                [] OTag(o) = "feat" -> IsEmpty(o[2])
                [] OTag(o) = "coll" -> \A i \in 1..Len(o[3]) : IsEmpty(o[3][i])
Flat(ss) == LET RECURSIVE F(_) F(i) == IF i > Len(ss) THEN <<>> ELSE ss[i] \o F(i+1) IN F(1)
\* the parts an object is split into (ForEach)
Parts(o, strip) == CASE OTag(o) \in {"leaf", "emp"} -> <<o>>
                     [] OTag(o) = "feat" -> IF strip THEN Parts(o[2], strip) ELSE <<o>>
                     [] OTag(o) = "coll" -> Flat([i \in 1..Len(o[3]) |-> Parts(o[3][i], strip)])
NonEmptyParts(o, strip) == SelectSeq(Parts(o, strip), LAMBDA p : ~IsEmpty(p))
Union4(a, b) == <<IF a[1] < b[1] THEN a[1] ELSE b[1], IF a[2] < b[2] THEN a[2] ELSE b[2],
                  IF a[3] > b[3] THEN a[3] ELSE b[3], IF a[4] > b[4] THEN a[4] ELSE b[4]>>
\* rectangle of a non-empty object: union over its non-empty children
RectOf(o) == CASE OTag(o) = "leaf" -> RectTab[o[2]]
               [] OTag(o) = "feat" -> RectOf(o[2])
               [] OTag(o) = "coll" -> LET ne == SelectSeq(o[3], LAMBDA c : ~IsEmpty(c))
                                          RECURSIVE U(_) U(i) == IF i = Len(ne) THEN RectOf(ne[i]) ELSE Union4(RectOf(ne[i]), U(i+1))
                                      IN U(1)
Meets4(r, q) == ~(r[2] > q[4] \/ r[4] < q[2] \/ r[1] > q[3] \/ r[3] < q[1])
Covers4(r, q) == q[1] >= r[1] /\ q[3] <= r[3] /\ q[2] >= r[2] /\ q[4] <= r[4]
IsColl(o) == OTag(StripAll(o)) = "coll"
Kids(o) == StripAll(o)[3]

RECURSIVE Inter(_,_,_), Cont(_,_,_)
Inter(a, b, strip) ==
   LET A == StripAll(a) B == StripAll(b) IN
   IF OTag(A) = "coll" THEN
        LET ps == NonEmptyParts(b, strip) IN          \* (bound once: the parts of b do not depend on the child of A)
        \E i \in 1..Len(A[3]) : ~IsEmpty(A[3][i]) /\ \E j \in 1..Len(ps) : Inter(A[3][i], ps[j], strip)
   ELSE IF OTag(B) = "coll" THEN \E i \in 1..Len(B[3]) : ~IsEmpty(B[3][i]) /\ Inter(B[3][i], A, strip)
   ELSE IF OTag(A) = "emp" \/ OTag(B) = "emp" THEN FALSE
   ELSE MaskTab[A[2]] \cap MaskTab[B[2]] # {}
\* a contains b
Cont(a, b, strip) ==
   LET A == StripAll(a) B == StripAll(b) IN
   IF OTag(A) = "coll" THEN
        LET ps == NonEmptyParts(b, strip) IN
        /\ ~IsEmpty(A)
        /\ ps # <<>>
        /\ \A j \in 1..Len(ps) : \E i \in 1..Len(A[3]) : ~IsEmpty(A[3][i]) /\ Cont(A[3][i], ps[j], strip)
   ELSE IF OTag(B) = "coll" THEN ~IsEmpty(B) /\ \A i \in 1..Len(B[3]) : Cont(A, B[3][i], strip)       \* B within A: EVERY child
   ELSE IF OTag(A) = "emp" \/ OTag(B) = "emp" THEN FALSE
   ELSE MaskTab[B[2]] # {} /\ MaskTab[B[2]] \subseteq MaskTab[A[2]]
\* the children a search with rectangle q reports: the non-empty ones whose rectangle meets q
SearchSemC(o, q) == {i \in 1..Len(Kids(o)) : ~IsEmpty(Kids(o)[i]) /\ Meets4(RectOf(Kids(o)[i]), q)}
=============================================================================
