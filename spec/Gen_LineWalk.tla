----------------------------- MODULE Gen_LineWalk -----------------------------
(***************************************************************************)
(* Enumerates every ordered pair of octilinear lines of 2..K points on the *)
(* (0..N)^2 lattice and prints, per line, the outcome the L2 walk          *)
(* (PlanarImpl!LineWalk: 1 "true" / 0 "false" / 2 "runaway") predicts for  *)
(* line.ContainsLine(other).  The Go replayer requires the real code to    *)
(* behave exactly as the transcription predicts -- in particular to loop   *)
(* forever exactly where the model revisits a state (conformance of the    *)
(* code to the model of the walk).  Exactness of the answer is C03's.      *)
(***************************************************************************)
EXTENDS PlanarImpl, TLC, SequencesExt
CONSTANTS N, K
Pts == (0..N) \X (0..N)
OctiP(a, b) == LET dx == X(b)-X(a) dy == Y(b)-Y(a) IN (dx = 0 \/ dy = 0 \/ dx = dy \/ dx = -dy)
OctiLine(l) == \A k \in 1..(Len(l)-1) : OctiP(l[k], l[k+1])
VARIABLES line, done
Init == line = <<>> /\ done = FALSE
Next == /\ ~done
        /\ \/ Len(line) < K /\ \E p \in Pts : (Len(line) > 0 => OctiP(line[Len(line)], p)) /\ line' = Append(line, p) /\ done' = FALSE
           \/ Len(line) >= 2 /\ line' = line /\ done' = TRUE
Spec == Init /\ [][Next]_<<line, done>>
Code(s) == IF s = "true" THEN 1 ELSE IF s = "false" THEN 0 ELSE 2
Emit == done => LET others == SetToSeq(UNION {{l \in [1..k -> Pts] : OctiLine(l)} : k \in 2..K})
                IN PrintT(ToString(<<"WALK", line, [b \in 1..Len(others) |-> <<others[b], Code(LineWalk(line, others[b]))>>]>>))
=============================================================================
