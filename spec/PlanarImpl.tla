------------------------------ MODULE PlanarImpl ------------------------------
(* L2 dispatch over shapes for point membership (what the code does). *)
EXTENDS Planar, RingImpl
InL2(p, s) ==
   CASE Kind(s) = "pt"   -> p = s[2]                                         \* point.go:27
     [] Kind(s) = "rect" -> RectContainsPointL2(s[2], s[3], p)
     [] Kind(s) = "line" -> LineContainsPointL2(s[2], p)
     [] Kind(s) = "poly" -> PolyContainsPointL2(s[2], s[3], p)
=============================================================================
