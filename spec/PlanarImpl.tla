------------------------------ MODULE PlanarImpl ------------------------------
(***************************************************************************)
(* L2 -- geometry/poly.go, line.go, rect.go, point.go transcribed: the 4x4x2 *)
(* method table over the shapes of Planar.  ContainsL2 / IntersectsL2 give   *)
(* the answer with the brute-force search order; ContainsMayL2(A,B,w) says   *)
(* whether some admissible order of an indexed search can make the call      *)
(* return w.  Line.ContainsLine is the segment walk of line.go:69-109, run   *)
(* as a bounded iteration: it returns "true", "false" or "runaway" (the walk *)
(* revisits a state, i.e. the real loop never terminates).                   *)
(***************************************************************************)
EXTENDS Planar, RingImpl

\* ---- point membership (C01)
PolyContainsPointL2(ext, holes, p) ==                                         \* poly.go:93-108
   /\ RingContainsPointL2(RingOp(ext), p, TRUE).hit
   /\ \A h \in 1..Len(holes) : ~RingContainsPointL2(RingOp(holes[h]), p, FALSE).hit
LineContainsPointL2(l, p) == \E i \in 1..NumSegmentsL2(l, FALSE) :              \* line.go:33-46
                                RaycastL2(SegmentAtL2(l,i)[1], SegmentAtL2(l,i)[2], p) = "on"
R4(s) == <<X(s[2]), Y(s[2]), X(s[3]), Y(s[3])>>                                 \* rect shape -> rect4
InL2(p, s) ==
   CASE Kind(s) = "pt"   -> p = s[2]                                          \* point.go:27
     [] Kind(s) = "rect" -> PtInRect(p, R4(s))                                \* rect.go:113
     [] Kind(s) = "line" -> LineContainsPointL2(s[2], p)
     [] Kind(s) = "poly" -> PolyContainsPointL2(s[2], s[3], p)

\* ---- Line.ContainsLine (line.go:69-109)
LineWalk(line, other) ==
  IF EmptyL2(line, FALSE) \/ EmptyL2(other, FALSE) THEN "false"
  ELSE LET nl == NumSegmentsL2(line, FALSE) no == NumSegmentsL2(other, FALSE)
           LS(j) == SegmentAtL2(line, j)  OS(i) == SegmentAtL2(other, i)
           SegC(s, t) == ContainsSegmentL2(s[1], s[2], t[1], t[2])
           start == {j \in 1..nl : SegC(LS(j), OS(1))}
           RECURSIVE Walk(_,_,_)
           \* segIdx (1-based), i (1-based index of the other segment under test), steps taken
           Walk(segIdx, i, steps) ==
              IF i > no THEN "true"
              ELSE IF steps > (nl + 1) * (no + 1) THEN "runaway"
              ELSE LET ls == LS(segIdx) os == OS(i) IN
                   IF SegC(ls, os) THEN Walk(segIdx, i+1, steps+1)
                   ELSE IF os[1] = ls[1] THEN (IF segIdx = 1 THEN "false" ELSE Walk(segIdx-1, i, steps+1))
                   ELSE IF os[1] = ls[2] THEN (IF segIdx = nl THEN "false" ELSE Walk(segIdx+1, i, steps+1))
                   ELSE Walk(segIdx, i+1, steps+1)               \* falls through: the segment is skipped
       IN IF start = {} THEN "false"
          ELSE Walk(CHOOSE j \in start : \A k \in start : j <= k, 2, 1)

B2S(b) == IF b THEN "true" ELSE "false"
LineOfRect(r4) == <<<<r4[1], r4[2]>>, <<r4[3], r4[4]>>>>
\* rect of a shape as the code computes it
ShapeRect(s) == CASE Kind(s) = "pt" -> <<X(s[2]),Y(s[2]),X(s[2]),Y(s[2])>>
                  [] Kind(s) = "rect" -> R4(s)
                  [] Kind(s) = "line" -> PP(s[2], FALSE).rect
                  [] Kind(s) = "poly" -> PP(s[2], TRUE).rect
ShapeEmpty(s) == CASE Kind(s) \in {"pt", "rect"} -> FALSE
                   [] Kind(s) = "line" -> EmptyL2(s[2], FALSE)
                   [] Kind(s) = "poly" -> EmptyL2(s[2], TRUE)
\* a polygon operand: [ext |-> series operand, holes |-> sequence of series operands]
PolyOf(s) == IF Kind(s) = "rect" THEN [ext |-> RectOp(R4(s)), holes |-> <<>>]
             ELSE [ext |-> RingOp(s[2]), holes |-> [h \in 1..Len(s[3]) |-> RingOp(s[3][h])]]

\* Poly.ContainsPoly (poly.go:158-186): may return `want` for some admissible search order
PolyContainsPolyMay(P, Q, want) ==
  LET extMay(w) == RingContainsRingMay(P.ext, Q.ext, TRUE, w)
      \* hole h of P blocks unless it is contained in a hole of Q
      Blocks(h) == RingIntersectsRingL2(P.holes[h], Q.ext, FALSE)
      SavedMay(h, w) == IF w THEN \E k \in 1..Len(Q.holes) : RingContainsRingMay(Q.holes[k], P.holes[h], TRUE, TRUE)
                        ELSE \A k \in 1..Len(Q.holes) : RingContainsRingMay(Q.holes[k], P.holes[h], TRUE, FALSE)
  IN IF want THEN extMay(TRUE) /\ \A h \in 1..Len(P.holes) : ~Blocks(h) \/ SavedMay(h, TRUE)
     ELSE extMay(FALSE) \/ \E h \in 1..Len(P.holes) : Blocks(h) /\ SavedMay(h, FALSE)
PolyIntersectsPolyL2(P, Q) ==                                                     \* poly.go:188-207
  /\ RingIntersectsRingL2(Q.ext, P.ext, TRUE)
  /\ \A h \in 1..Len(P.holes) : ~RingContainsRingL2(P.holes[h], Q.ext, FALSE)
  /\ \A h \in 1..Len(Q.holes) : ~RingContainsRingL2(Q.holes[h], P.ext, FALSE)
PolyContainsLineMay(P, l, want) ==                                                \* poly.go:128-141
  LET lo == OpenOp(l)
      HoleHit(h) == RingIntersectsLineL2(P.holes[h], lo, FALSE)
  IN IF want THEN RingContainsRingMay(P.ext, lo, TRUE, TRUE) /\ \A h \in 1..Len(P.holes) : ~HoleHit(h)
     ELSE RingContainsRingMay(P.ext, lo, TRUE, FALSE) \/ \E h \in 1..Len(P.holes) : HoleHit(h)
PolyIntersectsLineL2(P, l) ==                                                     \* poly.go:143-156
  /\ RingIntersectsLineL2(P.ext, OpenOp(l), TRUE)
  /\ \A h \in 1..Len(P.holes) : ~RingContainsRingL2(P.holes[h], OpenOp(l), FALSE)
\* Line.ContainsPoly (line.go:139-154): only a polygon whose rectangle is degenerate can be contained
LineContainsPolyL2(l, prect, pempty) ==
  IF EmptyL2(l, FALSE) \/ pempty THEN "false"
  ELSE IF prect[1] # prect[3] /\ prect[2] # prect[4] THEN "false"
  ELSE LineWalk(l, LineOfRect(prect))
LineIntersectsLineL2(l, m) ==                                                     \* line.go:111-137
  IF EmptyL2(l, FALSE) \/ EmptyL2(m, FALSE) THEN FALSE
  ELSE IF ~RectMeets(PP(l, FALSE).rect, PP(m, FALSE).rect) THEN FALSE
  ELSE \E i \in 1..NumSegmentsL2(l, FALSE) : \E j \in 1..NumSegmentsL2(m, FALSE) :
          SegIntersectsL2(SegmentAtL2(l,i)[1], SegmentAtL2(l,i)[2], SegmentAtL2(m,j)[1], SegmentAtL2(m,j)[2])
          \* (the smaller line is the receiver of IntersectsSegment; the kernel is symmetric, theorem T1)

\* ---- the method table: the set of results the call A.ContainsX(B) may return ("true","false","runaway")
ContainsSetL2(A, B) ==
  LET ka == Kind(A) kb == Kind(B) IN
  CASE ka = "pt" ->
        (CASE kb = "pt" -> {B2S(A[2] = B[2])}                                                       \* point.go:27
           [] kb = "rect" -> {B2S(ShapeRect(A) = R4(B))}                                            \* point.go:35
           [] kb \in {"line", "poly"} -> {B2S(~ShapeEmpty(B) /\ ShapeRect(B) = ShapeRect(A))})      \* point.go:43-62
    [] ka = "rect" ->
        (CASE kb = "pt" -> {B2S(PtInRect(B[2], R4(A)))}
           [] kb = "rect" -> {B2S(RectInside(R4(B), R4(A)))}                                        \* rect.go:122-130
           [] kb \in {"line", "poly"} -> {B2S(~ShapeEmpty(B) /\ RectInside(ShapeRect(B), R4(A)))})  \* rect.go:142-161
    [] ka = "line" ->
        (CASE kb = "pt" -> {B2S(LineContainsPointL2(A[2], B[2]))}
           [] kb = "line" -> {LineWalk(A[2], B[2])}
           [] kb \in {"rect", "poly"} -> {LineContainsPolyL2(A[2], ShapeRect(B), ShapeEmpty(B))})   \* line.go:55-61,139
    [] ka = "poly" ->
        (CASE kb = "pt" -> {B2S(PolyContainsPointL2(A[2], A[3], B[2]))}
           [] kb = "line" -> LET P == PolyOf(A) IN {B2S(w) : w \in {v \in BOOLEAN : PolyContainsLineMay(P, B[2], v)}}
           [] kb \in {"rect", "poly"} -> LET P == PolyOf(A) Q == PolyOf(B) IN {B2S(w) : w \in {v \in BOOLEAN : PolyContainsPolyMay(P, Q, v)}})
IntersectsL2(A, B) ==
  LET ka == Kind(A) kb == Kind(B) IN
  CASE ka = "pt" ->
        (CASE kb = "pt" -> A[2] = B[2]
           [] kb = "rect" -> PtInRect(A[2], R4(B))                                                  \* point.go:39
           [] kb = "line" -> LineContainsPointL2(B[2], A[2])
           [] kb = "poly" -> PolyContainsPointL2(B[2], B[3], A[2]))
    [] ka = "rect" ->
        (CASE kb = "pt" -> PtInRect(B[2], R4(A))
           [] kb = "rect" -> RectMeets(R4(A), R4(B))
           [] kb = "line" -> RingIntersectsLineL2(RectOp(R4(A)), OpenOp(B[2]), TRUE)                 \* rect.go:149-154
           [] kb = "poly" -> PolyIntersectsPolyL2(PolyOf(B), PolyOf(A)))                              \* rect.go:163-168 -> poly.IntersectsRect
    [] ka = "line" ->
        (CASE kb = "pt" -> LineContainsPointL2(A[2], B[2])
           [] kb = "rect" -> RingIntersectsLineL2(RectOp(R4(B)), OpenOp(A[2]), TRUE)                 \* line.go:63-68
           [] kb = "line" -> LineIntersectsLineL2(A[2], B[2])
           [] kb = "poly" -> PolyIntersectsLineL2(PolyOf(B), A[2]))                                  \* line.go:156
    [] ka = "poly" ->
        (CASE kb = "pt" -> PolyContainsPointL2(A[2], A[3], B[2])
           [] kb = "rect" -> PolyIntersectsPolyL2(PolyOf(A), PolyOf(B))                              \* poly.go:118-126
           [] kb = "line" -> PolyIntersectsLineL2(PolyOf(A), B[2])
           [] kb = "poly" -> PolyIntersectsPolyL2(PolyOf(A), PolyOf(B)))
=============================================================================
