------------------------------- MODULE Sphere1D -------------------------------
(***************************************************************************)
(* L1 for C13 -- the great-circle lattice.  Positions 0..NP-1 lie on ONE    *)
(* great circle (a meridian pair through both poles, or the equator) at     *)
(* equal angular steps; on it the great-circle distance is exactly linear   *)
(* in the index difference:  d(i,j) = min(|i-j|, NP-|i-j|) steps of          *)
(* u = (pi R) / (NP/2) metres.  Radii are  (m + q/8) u  with q odd (or        *)
(* m = q = 0), so "within great-circle distance" is integer arithmetic and    *)
(* no comparison the code makes is closer than u/8 to equality               *)
(* (Ambiguous excludes the residual sums that are).                           *)
(***************************************************************************)
EXTENDS Integers
CONSTANT NP
Abs(x) == IF x < 0 THEN -x ELSE x
D(i, j) == LET a == Abs(i - j) IN IF a < NP - a THEN a ELSE NP - a
\* radius r = <<m, q>> stands for (m + q/8) u;  eighths of u:
R8(r) == 8 * r[1] + r[2]
\* a Circle contains (and intersects) a point exactly when its distance from the centre is at most the radius
ContainsPt(c, r, p) == 8 * D(c, p) <= R8(r)
\* circle A contains circle B only if every point of B is within A; A intersects B iff centre distance <= sum of radii
ContainsCircle(ca, ra, cb, rb) == 8 * D(ca, cb) + R8(rb) <= R8(ra)
IntersectsCircle(ca, ra, cb, rb) == 8 * D(ca, cb) <= R8(ra) + R8(rb)
AmbiguousContains(ca, ra, cb, rb) == 8 * D(ca, cb) + R8(rb) = R8(ra)
AmbiguousIntersects(ca, ra, cb, rb) == 8 * D(ca, cb) = R8(ra) + R8(rb)
\* containment is monotone in the radius (theorem T10, checked by Gen_Circle)
Monotone(c, r1, r2, p) == R8(r1) <= R8(r2) /\ ContainsPt(c, r1, p) => ContainsPt(c, r2, p)
=============================================================================
