------------------------------ MODULE Gen_Circle ------------------------------
(***************************************************************************)
(* Generator for C13: centres at distinguished lattice positions (equator   *)
(* crossing, next to and on both poles, the antimeridian side), radii from  *)
(* 0 to half the circumference; for each (centre, m) the containment of     *)
(* EVERY lattice position, and circle / circle relations for pairs of        *)
(* centres and radii.  T10 (monotonicity and the point-set reading of        *)
(* circle containment) is checked on the model.                              *)
(***************************************************************************)
EXTENDS Sphere1D, Sequences, TLC
VARIABLES c, m
Centres == {0, 1, NP \div 4 - 1, NP \div 4, NP \div 4 + 1, NP \div 2, (3 * NP) \div 4, NP - 1, 37 % NP}
Ms == {0, 1, 2, 5, NP \div 8, NP \div 4 - 1, NP \div 4, NP \div 2 - 1}
Qs == {1, 3, 5, 7}
Init == c = -1 /\ m = -1
Next == \/ c = -1 /\ \E x \in Centres : c' = x /\ m' = -1
        \/ c >= 0 /\ m = -1 /\ \E y \in Ms : m' = y /\ c' = c
Spec == Init /\ [][Next]_<<c, m>>
B2I(x) == IF x THEN 1 ELSE 0
T10 == c >= 0 /\ m >= 0 => \A p \in 0..(NP-1) :
          /\ \A q \in Qs : ContainsPt(c, <<m, q>>, p) = (D(c, p) <= m)
          /\ \A q1 \in Qs : \A q2 \in Qs : Monotone(c, <<m, q1>>, <<m + 1, q2>>, p)
          \* if circle A contains circle B then every lattice point of B is in A (the converse holds only up to
          \* the resolution of the lattice), and then A intersects B
          /\ \A mb \in {0, 2} : ContainsCircle(c, <<m, 1>>, p, <<mb, 3>>) =>
                /\ (\A x \in 0..(NP-1) : ContainsPt(p, <<mb, 3>>, x) => ContainsPt(c, <<m, 1>>, x))
                /\ IntersectsCircle(c, <<m, 1>>, p, <<mb, 3>>)
          /\ \A mb \in {0, 2} : IntersectsCircle(c, <<m, 1>>, p, <<mb, 3>>) = IntersectsCircle(p, <<mb, 3>>, c, <<m, 1>>)
Emit == c >= 0 /\ m >= 0 =>
   PrintT(ToString(<<"CIRCLE", c, m, [p \in 1..NP |-> B2I(D(c, p - 1) <= m)],
                     \* circle / circle relations: <<cb, mb, qa, qb, contains, intersects, ambiguous>>
                     [k \in 1..12 |-> LET cb == (c + ((k * 41) % (NP \div 2))) % NP
                                          mb == (k * 7) % (NP \div 4)
                                          qa == 2 * (k % 4) + 1  qb == 2 * ((k \div 4) % 4) + 1
                                      IN <<cb, mb, qa, qb, B2I(ContainsCircle(c, <<m, qa>>, cb, <<mb, qb>>)),
                                           B2I(IntersectsCircle(c, <<m, qa>>, cb, <<mb, qb>>)),
                                           B2I(AmbiguousContains(c, <<m, qa>>, cb, <<mb, qb>>) \/ AmbiguousIntersects(c, <<m, qa>>, cb, <<mb, qb>>))>>]>>))
=============================================================================
