------------------------------- MODULE Gen_C18 -------------------------------
(***************************************************************************)
(* Exhaustive generator for C18: every vertex sequence of length 0..K over *)
(* the (0..N)^2 lattice whose first point is lexicographically minimal     *)
(* (the other rotations are produced by the replayer; L1 is rotation       *)
(* invariant - theorem T3ser below).  Prints the L1 attributes and checks  *)
(* SeriesImpl = Series (T4ser) on every sequence.                          *)
(***************************************************************************)
EXTENDS SeriesImpl, TLC
CONSTANTS N, K
VARIABLES ring
M == N + 1
Pts == (0..N) \X (0..N)
Le(p,q) == X(p) < X(q) \/ (X(p) = X(q) /\ Y(p) <= Y(q))
Init == ring = <<>>
Next == Len(ring) < K /\ \E p \in Pts : (Len(ring) > 0 => Le(ring[1], p)) /\ ring' = Append(ring, p)
Spec == Init /\ [][Next]_ring
B2I(x) == IF x THEN 1 ELSE 0

\* T4ser: the transcription of processPoints / NumSegments / Empty agrees with L1
T4ser == /\ NumSegmentsL2(ring, TRUE) = NSegS(ring, TRUE) /\ NumSegmentsL2(ring, FALSE) = NSegS(ring, FALSE)
         /\ EmptyL2(ring, TRUE) = EmptyS(ring, TRUE) /\ EmptyL2(ring, FALSE) = EmptyS(ring, FALSE)
         /\ Len(ring) >= 3 => LET pp == PP(ring, TRUE) wc == Append(ring, ring[1]) ppc == PP(wc, TRUE) IN
                /\ pp.convex = ConvexS(ring) /\ pp.clockwise = ClockwiseS(ring) /\ pp.rect = BBoxS(ring)
                /\ ppc.convex = ConvexS(ring) /\ ppc.clockwise = ClockwiseS(ring) /\ ppc.rect = BBoxS(ring)
         /\ Len(ring) >= 2 => PP(ring, FALSE).rect = BBoxS(ring)
\* T3ser: L1 convexity / winding do not depend on the start vertex or on a repeated closing vertex
T3ser == Len(ring) >= 3 /\ ring[Len(ring)] # ring[1] =>
         /\ \A k \in 1..Len(ring)-1 : ConvexS(Rot(ring,k)) = ConvexS(ring) /\ ClockwiseS(Rot(ring,k)) = ClockwiseS(ring)
         /\ ConvexS(Append(ring, ring[1])) = ConvexS(ring) /\ ClockwiseS(Append(ring, ring[1])) = ClockwiseS(ring)
         /\ ConvexS(Rev(ring)) = ConvexS(ring)
         /\ (Area2S(ring) # 0 => ClockwiseS(Rev(ring)) = ~ClockwiseS(ring))

Emit == PrintT(ToString(<<"C18", ring,
            IF Len(ring) >= 3 THEN B2I(ConvexS(ring)) ELSE -1,
            IF Len(ring) >= 3 THEN B2I(ClockwiseS(ring)) ELSE -1,
            SegsS(ring, TRUE), SegsS(ring, FALSE),
            B2I(EmptyS(ring, TRUE)), B2I(EmptyS(ring, FALSE))>>))
=============================================================================
