------------------------------ MODULE Trace_C01 ------------------------------
(***************************************************************************)
(* Judges point-membership events recorded from the real code              *)
(* (Poly/Rect/Line/Point ContainsPoint, IntersectsPoint and the object-     *)
(* level Contains/Within/Intersects with Point and SimplePoint) against     *)
(* L1 (Planar!In).  An event carries one shape, a list of query points and  *)
(* the list of replies.                                                     *)
(***************************************************************************)
EXTENDS PlanarImpl, TraceBase
B2I(x) == IF x THEN 1 ELSE 0
Exp(e) == [i \in 1..Len(e.pts) |-> B2I(In(e.pts[i], e.shape))]
Pred(e) == [i \in 1..Len(e.pts) |-> B2I(InL2(e.pts[i], e.shape))]
Judge == pos > 0 =>
   LET e == Trace[pos] IN
   IF e.got = Exp(e) THEN TRUE
   ELSE PrintT(ToString(<<"MISMATCH", pos, Exp(e), Pred(e), "ring.go:ringContainsPoint/poly.go:ContainsPoint">>))
=============================================================================
