------------------------------ MODULE Trace_C01 ------------------------------
(***************************************************************************)
(* Judges point-membership events recorded from the real code              *)
(* (Poly/Rect/Line/Point ContainsPoint, IntersectsPoint and the object-     *)
(* level Contains/Within/Intersects with Point and SimplePoint) against     *)
(* L1 (Planar!In).  An event carries one shape, a list of query points and  *)
(* the list of replies.                                                     *)
(***************************************************************************)
EXTENDS PlanarImpl, BigKernel, TraceBase
B2I(x) == IF x THEN 1 ELSE 0
Exp(e) == [i \in 1..Len(e.pts) |-> B2I(In(e.pts[i], e.shape))]
Pred(e) == [i \in 1..Len(e.pts) |-> B2I(InL2(e.pts[i], e.shape))]
\* events marked big: a polygon without holes or a line with coordinates up to 2^20, judged with the limb-arithmetic kernels
InBig(p, s) == IF Kind(s) = "poly" THEN InRingClosedB(p, s[2])
               ELSE \E i \in 1..(Len(s[2]) - 1) : OnSegB(p, s[2][i], s[2][i+1])
ExpBig(e) == [i \in 1..Len(e.pts) |-> B2I(InBig(e.pts[i], e.shape))]
Judge == pos > 0 =>
   LET e == Trace[pos] IN
   IF "big" \in DOMAIN e THEN (e.got = ExpBig(e) \/ PrintT(ToString(<<"MISMATCH", pos, ExpBig(e), ExpBig(e), "large coordinates">>)))
   ELSE IF e.got = Exp(e) THEN TRUE
   ELSE PrintT(ToString(<<"MISMATCH", pos, Exp(e), Pred(e), "ring.go:ringContainsPoint/poly.go:ContainsPoint">>))
=============================================================================
