-------------------------------- MODULE Gen_Doc --------------------------------
(***************************************************************************)
(* Generator for C07 (and the document universe of C06 / C08): a set of     *)
(* well-formed base documents of all nine types (2-4 dimensional and mixed  *)
(* positions, foreign members, duplicate and reordered members, nesting)    *)
(* and EVERY single structural mutation of each: any sub-value replaced by  *)
(* a value of another JSON kind, any member or array element deleted,       *)
(* duplicated (before / after, with another value) or moved to the front.   *)
(* This realises the mutation catalogue of the property (wrong JSON kinds   *)
(* at every level, missing / duplicated / reordered members, too-short and  *)
(* unclosed rings, non-numeric ordinates, unknown types, defects in nested  *)
(* objects).  Each document is printed with its L1 verdict and, when it     *)
(* must be accepted, the object tree it denotes.                            *)
(***************************************************************************)
EXTENDS ParserImpl, TLC
CONSTANT MaxMut    \* 1: every single mutation (exhaustive); 2-3: chains of mutations, explored with tlc -simulate
CONSTANT Mode      \* "c07": the core documents; "c08": plus out-of-range coordinates and the Circle convention
VARIABLES b, mut
vars == <<b, mut>>
P2(x, y) == Arr(<<Num(x), Num(y)>>)
P3(x, y, z) == Arr(<<Num(x), Num(y), Num(z)>>)
P4(x, y, z, m) == Arr(<<Num(x), Num(y), Num(z), Num(m)>>)
T(name) == <<"type", Str(name)>>
C(v) == <<"coordinates", v>>
Ring1 == Arr(<<P2(1,1), P2(3,1), P2(3,3), P2(1,1)>>)
Ring2 == Arr(<<P2(1,1), P2(4,1), P2(4,4), P2(1,4), P2(1,1)>>)
Hole2 == Arr(<<P2(2,2), P2(3,2), P2(3,3), P2(2,2)>>)
Ring3D == Arr(<<P3(1,1,5), P3(3,1,5), P3(3,3,6), P3(1,1,5)>>)
RingA3 == Arr(<<P3(1,1,1), P3(4,1,2), P3(4,4,3), P3(1,1,1)>>)
HoleB3 == Arr(<<P3(2,2,4), P3(3,2,5), P3(3,3,6), P3(2,2,4)>>)
HoleC3 == Arr(<<P3(2,2,6), P3(3,2,1), P3(3,3,2), P3(2,2,6)>>)
PointD == Obj(<<T("Point"), C(P2(1,2))>>)
LineD == Obj(<<T("LineString"), C(Arr(<<P2(1,1), P2(2,3)>>))>>)
PolyD == Obj(<<T("Polygon"), C(Arr(<<Ring1>>))>>)
Props == <<"properties", Obj(<<<<"name", Str("a")>>, <<"n", Num(5)>>>>)>>
CoreDocs == <<
   PointD,
   Obj(<<T("Point"), C(P3(1,2,3))>>),
   Obj(<<T("Point"), C(P4(1,2,3,4)), <<"id", Num(5)>>>>),
   LineD,
   Obj(<<T("LineString"), C(Arr(<<P3(1,1,5), P3(2,3,6), P3(4,4,1)>>))>>),
   Obj(<<T("LineString"), C(Arr(<<P3(1,1,5), P2(2,3), P4(4,4,1,2)>>))>>),
   Obj(<<T("LineString"), C(Arr(<<P2(1,1), P3(2,3,6)>>))>>),
   PolyD,
   Obj(<<T("Polygon"), C(Arr(<<Ring2, Hole2>>)), <<"bbox", Arr(<<Num(1), Num(1), Num(4), Num(4)>>)>>>>),
   Obj(<<T("Polygon"), C(Arr(<<Ring3D>>))>>),
   Obj(<<T("MultiPoint"), C(Arr(<<P2(1,2), P3(3,4,5)>>))>>),
   Obj(<<T("MultiPoint"), C(Arr(<<>>))>>),
   Obj(<<T("MultiLineString"), C(Arr(<<Arr(<<P2(1,1), P2(2,3)>>), Arr(<<P2(4,4), P2(5,5), P2(6,1)>>)>>))>>),
   Obj(<<T("MultiPolygon"), C(Arr(<<Arr(<<Ring1>>), Arr(<<Ring2, Hole2>>)>>))>>),
   Obj(<<T("GeometryCollection"), <<"geometries", Arr(<<PointD, LineD>>)>>>>),
   Obj(<<T("GeometryCollection"), <<"geometries", Arr(<<>>)>>>>),
   Obj(<<T("GeometryCollection"), <<"geometries", Arr(<<Obj(<<T("GeometryCollection"), <<"geometries", Arr(<<PolyD>>)>>>>), PointD>>)>>>>),
   Obj(<<T("Feature"), <<"geometry", PointD>>, <<"properties", Obj(<<>>)>>>>),
   Obj(<<T("Feature"), <<"id", Str("f1")>>, <<"geometry", PolyD>>, Props, <<"bbox", Arr(<<Num(1), Num(1), Num(3), Num(3)>>)>>>>),
   Obj(<<T("Feature"), <<"geometry", LineD>>>>),
   Obj(<<T("FeatureCollection"), <<"features", Arr(<<Obj(<<T("Feature"), <<"geometry", PointD>>, Props>>), Obj(<<T("Feature"), <<"geometry", LineD>>>>)>>)>>>>),
   Obj(<<T("FeatureCollection"), <<"features", Arr(<<>>)>>>>),
   Obj(<<<<"foreign", Arr(<<Num(1), Str("x"), Null>>)>>, C(P2(1,2)), T("Point"), <<"bbox", Null>>>>),
   Obj(<<T("LineString"), C(Arr(<<P2(9,9)>>)), T("Point"), C(P2(1,2))>>),
   Obj(<<T("Feature"), <<"geometry", Obj(<<T("GeometryCollection"), <<"geometries", Arr(<<PointD, PolyD>>)>>>>)>>, <<"properties", Null>>>>),
   Obj(<<T("FeatureCollection"), <<"features", Arr(<<PointD, Obj(<<T("Feature"), <<"geometry", PointD>>>>)>>)>>>>),
   Obj(<<T("Polygon"), C(Arr(<<RingA3, HoleB3, HoleC3>>))>>),
   Obj(<<T("MultiPolygon"), C(Arr(<<Arr(<<RingA3, HoleC3, HoleB3>>), Arr(<<Ring1>>)>>))>>),
   Obj(<<T("LineString"), C(Arr(<<P4(1,1,2,3), P4(2,3,4,5), P2(5,5)>>)), <<"properties", Null>>>>),
   Obj(<<T("MultiLineString"), C(Arr(<<Arr(<<P3(1,1,4), P3(2,3,5)>>), Arr(<<P2(4,4), P2(5,5)>>), Arr(<<P4(1,2,3,4), P3(2,1,6)>>)>>))>>),
   \* perfect rectangles (AllowRects turns them into Rect objects): plain, with a member, 3D
   Obj(<<T("Polygon"), C(Arr(<<Arr(<<P2(1,1), P2(3,1), P2(3,4), P2(1,4), P2(1,1)>>)>>))>>),
   Obj(<<T("Polygon"), C(Arr(<<Arr(<<P2(1,1), P2(3,1), P2(3,4), P2(1,4), P2(1,1)>>)>>)), <<"id", Num(1)>>>>),
   \* almost perfect rectangles (AllowRects must not take them for one): trapezoid, clockwise, other start corner, parallelogram, with a hole
   Obj(<<T("Polygon"), C(Arr(<<Arr(<<P2(1,1), P2(4,1), P2(4,4), P2(2,4), P2(1,1)>>)>>))>>),
   Obj(<<T("Polygon"), C(Arr(<<Arr(<<P2(1,1), P2(1,4), P2(3,4), P2(3,1), P2(1,1)>>)>>))>>),
   Obj(<<T("Polygon"), C(Arr(<<Arr(<<P2(3,1), P2(3,4), P2(1,4), P2(1,1), P2(3,1)>>)>>))>>),
   Obj(<<T("Polygon"), C(Arr(<<Arr(<<P2(1,1), P2(3,1), P2(4,4), P2(2,4), P2(1,1)>>)>>))>>),
   Obj(<<T("Polygon"), C(Arr(<<Arr(<<P2(1,1), P2(5,1), P2(5,5), P2(1,5), P2(1,1)>>), Arr(<<P2(2,2), P2(3,2), P2(3,3), P2(2,2)>>)>>))>>),
   Obj(<<T("Polygon"), C(Arr(<<Arr(<<P3(1,1,2), P3(3,1,2), P3(3,4,2), P3(1,4,2), P3(1,1,2)>>)>>))>>),
   \* foreign members whose keys need escaping, an empty key, nested objects that look like GeoJSON, strings with escapes
   Obj(<<T("Point"), <<"a\"b\\c", Num(1)>>, C(P2(1,2)), <<"", Str("empty key")>>, <<"tab\there", Str("q\"uote\\")>>,
         <<"nested", Obj(<<T("Polygon"), C(Arr(<<>>)), <<"properties", Obj(<<<<"properties", Null>>>>)>>>>)>>>>),
   Obj(<<T("Feature"), <<"schema", Obj(<<<<"properties", Obj(<<<<"name", Str("string")>>>>)>>>>)>>, <<"geometry", PointD>>, <<"id", Str("a7")>>>>),
   Obj(<<T("FeatureCollection"), <<"crs", Obj(<<<<"type", Str("name")>>, <<"properties", Obj(<<<<"name", Str("urn:x")>>>>)>>>>)>>,
         <<"features", Arr(<<Obj(<<T("Feature"), <<"geometry", PolyD>>, <<"properties", Obj(<<<<"geometry", Num(3)>>, <<"type", Str("x")>>>>)>>>>)>>)>>, <<"bbox", Arr(<<Num(1), Num(1), Num(3), Num(3)>>)>>>>)
>>
\* number tokens 8 and 9 are out of range (8: valid longitude, invalid latitude; 9: invalid as both) in every table
CircleProps(units) == <<"properties", Obj(<<<<"type", Str("Circle")>>, <<"radius", Num(5)>>, <<"radius_units", Str(units)>>>>)>>
ExtraDocs == <<
   Obj(<<T("Point"), C(P2(9,1))>>), Obj(<<T("Point"), C(P2(1,8))>>), Obj(<<T("Point"), C(P2(8,1))>>),
   Obj(<<T("LineString"), C(Arr(<<P2(1,1), P2(2,9)>>))>>),
   Obj(<<T("Polygon"), C(Arr(<<Ring2, Arr(<<P2(2,2), P2(3,2), P2(3,8), P2(2,2)>>)>>))>>),
   Obj(<<T("MultiPoint"), C(Arr(<<P2(9,1), P2(1,1)>>))>>),
   Obj(<<T("MultiLineString"), C(Arr(<<Arr(<<P2(1,1), P2(2,3)>>), Arr(<<P2(4,4), P2(9,9)>>)>>))>>),
   Obj(<<T("MultiPolygon"), C(Arr(<<Arr(<<Ring1>>), Arr(<<Ring2, Arr(<<P2(2,2), P2(3,2), P2(3,8), P2(2,2)>>)>>)>>))>>),
   Obj(<<T("GeometryCollection"), <<"geometries", Arr(<<PointD, Obj(<<T("MultiPoint"), C(Arr(<<P2(1,8)>>))>>)>>)>>>>),
   Obj(<<T("Feature"), <<"geometry", Obj(<<T("Point"), C(P2(1,9))>>)>>, Props>>),
   Obj(<<T("FeatureCollection"), <<"features", Arr(<<Obj(<<T("Feature"), <<"geometry", PointD>>>>), Obj(<<T("Feature"), <<"geometry", Obj(<<T("LineString"), C(Arr(<<P2(8,8), P2(1,1)>>))>>)>>>>)>>)>>>>),
   Obj(<<T("Feature"), <<"geometry", PointD>>, CircleProps("m")>>),
   Obj(<<T("Feature"), <<"id", Num(3)>>, <<"geometry", Obj(<<T("Point"), C(P2(2,3))>>)>>, CircleProps("km")>>),
   Obj(<<T("Feature"), <<"geometry", Obj(<<T("Point"), C(P3(2,3,4))>>)>>, CircleProps("m")>>),
   Obj(<<T("FeatureCollection"), <<"features", Arr(<<Obj(<<T("Feature"), <<"geometry", PointD>>, CircleProps("m")>>), Obj(<<T("Feature"), <<"geometry", PolyD>>>>)>>)>>>>),
   Obj(<<T("Polygon"), C(Arr(<<Arr(<<P2(1,1), P2(3,1), P2(3,4), P2(1,4), P2(1,1)>>)>>))>>),
   Obj(<<T("Polygon"), C(Arr(<<Arr(<<P2(1,1), P2(3,1), P2(3,4), P2(1,4), P2(1,1)>>)>>)), <<"id", Num(1)>>>>),
   Obj(<<T("GeometryCollection"), <<"geometries", Arr(<<Obj(<<T("Polygon"), C(Arr(<<Arr(<<P2(1,1), P2(3,1), P2(3,4), P2(1,4), P2(1,1)>>)>>))>>), PointD, LineD, PolyD>>)>>>>),
   Obj(<<T("GeometryCollection"), <<"geometries", Arr(<<Obj(<<T("MultiPoint"), C(Arr(<<>>))>>), Obj(<<T("Point"), C(P2(4,4))>>),
                                                           Obj(<<T("GeometryCollection"), <<"geometries", Arr(<<>>)>>>>), LineD, Obj(<<T("Point"), C(P2(5,2))>>)>>)>>>>),
   \* perfect rectangles with an out-of-range corner (AllowRects and RequireValid together), alone and nested
   \* (token 8 as latitude: out of range but moderate in every number table; token 9 is 1.8e308 in one table, where the
   \* rectangle's area overflows and Rect and Polygon legitimately differ - not an option effect)
   Obj(<<T("Polygon"), C(Arr(<<Arr(<<P2(1,1), P2(3,1), P2(3,8), P2(1,8), P2(1,1)>>)>>))>>),
   Obj(<<T("Polygon"), C(Arr(<<Arr(<<P2(1,4), P2(3,4), P2(3,8), P2(1,8), P2(1,4)>>)>>)), <<"id", Num(1)>>>>),
   Obj(<<T("Feature"), <<"geometry", Obj(<<T("Polygon"), C(Arr(<<Arr(<<P2(1,1), P2(3,1), P2(3,8), P2(1,8), P2(1,1)>>)>>))>>)>>>>),
   Obj(<<T("GeometryCollection"), <<"geometries", Arr(<<PointD, Obj(<<T("Polygon"), C(Arr(<<Arr(<<P2(1,1), P2(3,1), P2(3,8), P2(1,8), P2(1,1)>>)>>))>>)>>)>>>>),
   \* Circle features whose centre is next to a pole in two of the three number tables (token 7): the polygon approximation leaves
   \* the valid range there, the Feature and its Point do not - RequireValid has nothing to reject
   Obj(<<T("Feature"), <<"geometry", Obj(<<T("Point"), C(P2(7,7))>>)>>, CircleProps("km")>>),
   Obj(<<T("FeatureCollection"), <<"features", Arr(<<Obj(<<T("Feature"), <<"geometry", Obj(<<T("Point"), C(P2(1,7))>>)>>, CircleProps("km")>>)>>)>>>>),
   \* ... and next to the antimeridian (token 8 as longitude: 179.99999999999997 in one table)
   Obj(<<T("Feature"), <<"geometry", Obj(<<T("Point"), C(P2(8,1))>>)>>, CircleProps("km")>>),
   Obj(<<T("GeometryCollection"), <<"geometries", Arr(<<PointD, Obj(<<T("Feature"), <<"geometry", Obj(<<T("Point"), C(P2(8,4))>>)>>, CircleProps("km")>>)>>)>>>>),
   \* a ring that is a rectangle only if -0 and 0 are taken for the same number (tokens 2 and 0 in one number table): as a Rect it
   \* would be written back with the other zero
   Obj(<<T("Polygon"), C(Arr(<<Arr(<<P2(2,0), P2(4,0), P2(4,4), P2(0,4), P2(2,0)>>)>>))>>),
   Obj(<<T("Polygon"), C(Arr(<<Arr(<<P2(0,2), P2(4,0), P2(4,4), P2(0,4), P2(0,2)>>)>>))>>),
   \* foreign members that look like coordinates but are out of range: validity is about positions only
   Obj(<<T("Point"), C(P2(1,2)), <<"bbox", Arr(<<Num(9), Num(9), Num(9), Num(9)>>)>>>>),
   Obj(<<T("Feature"), <<"bbox", Arr(<<Num(8), Num(8), Num(9), Num(9)>>)>>, <<"geometry", LineD>>, <<"properties", Obj(<<<<"coordinates", Arr(<<Num(9), Num(9)>>)>>>>)>>>>),
   Obj(<<T("FeatureCollection"), <<"bbox", Arr(<<Num(9), Num(8), Num(9), Num(8)>>)>>, <<"features", Arr(<<Obj(<<T("Feature"), <<"geometry", PolyD>>, <<"bbox", Arr(<<Num(1), Num(9), Num(3), Num(9)>>)>>>>)>>)>>>>),
   Obj(<<T("FeatureCollection"), <<"features", Arr(<<Obj(<<T("Feature"), <<"geometry", Obj(<<T("MultiPolygon"), C(Arr(<<>>))>>)>>>>),
                                                       Obj(<<T("Feature"), <<"geometry", PolyD>>>>), Obj(<<T("Feature"), <<"geometry", Obj(<<T("Point"), C(P2(4,4))>>)>>>>)>>)>>>>)
>>
\* large documents (c08 only, never mutated): geometries and collections big enough for the segment / child indexes
SnakeX(k) == LET r == (k-1) \div 40 c == (k-1) % 40 IN 10 + (IF r % 2 = 0 THEN c ELSE 39 - c)
BigLine == Obj(<<T("LineString"), C(Arr([k \in 1..330 |-> P2(SnakeX(k), 10 + (k-1) \div 40)]))>>)
SquareRing == Arr([k \in 1..201 |-> IF k <= 50 THEN P2(10 + (k-1), 10) ELSE IF k <= 100 THEN P2(60, 10 + (k-51))
                                      ELSE IF k <= 150 THEN P2(60 - (k-101), 60) ELSE IF k <= 200 THEN P2(10, 60 - (k-151)) ELSE P2(10, 10)])
BigPoly == Obj(<<T("Polygon"), C(Arr(<<SquareRing, Arr(<<P2(20,20), P2(30,20), P2(30,30), P2(20,30), P2(20,20)>>)>>)), <<"id", Str("big")>>>>)
BigMulti == Obj(<<T("MultiPolygon"), C(Arr(<<Arr(<<SquareRing>>), Arr(<<Ring1>>)>>))>>)
BigFC == Obj(<<T("FeatureCollection"), <<"features", Arr([k \in 1..70 |-> Obj(<<T("Feature"), <<"geometry", Obj(<<T("Point"), C(P2(10 + (k % 50), 10 + ((k * 7) % 50)))>>)>>, <<"properties", Obj(<<<<"k", Num(k % 8)>>>>)>>>>)])>>>>)
BigGC == Obj(<<T("GeometryCollection"), <<"geometries", Arr([k \in 1..66 |-> IF k % 11 = 0 THEN Obj(<<T("MultiPoint"), C(Arr(<<>>))>>)
                                                                         ELSE Obj(<<T("LineString"), C(Arr(<<P2(10 + (k % 40), 12), P2(11 + (k % 40), 13 + (k % 30))>>))>>)])>>>>)
BigDocs == <<BigLine, BigPoly, BigMulti, BigFC, BigGC>>
\* deeply nested documents (never mutated): the grammar has no depth limit
RECURSIVE NestGC(_, _)
NestGC(d, k) == IF k = 0 THEN d ELSE NestGC(Obj(<<T("GeometryCollection"), <<"geometries", Arr(<<d>>)>>>>), k - 1)
RECURSIVE NestFC(_, _)
NestFC(d, k) == IF k = 0 THEN d ELSE NestFC(Obj(<<T("FeatureCollection"), <<"features", Arr(<<Obj(<<T("Feature"), <<"geometry", d>>, <<"properties", Null>>>>)>>)>>>>), k - 1)
\* (depths are bounded by the JSON reader of the trace validator: 255 array levels, five per nesting step)
DeepDocs == <<NestGC(PointD, 33), NestGC(LineD, 46), NestFC(PolyD, 17), Obj(<<T("Feature"), <<"geometry", NestGC(PointD, 40)>>>>),
              NestGC(Obj(<<T("GeometryCollection"), <<"geometries", Arr(<<PointD, LineD>>)>>>>), 44)>>
\* rings that miss closure by the smallest amount a number table can express (token 3 against token 0: 5e-324 in one table): rejected
NearDocs == <<
   Obj(<<T("Polygon"), C(Arr(<<Arr(<<P2(0,1), P2(4,1), P2(4,4), P2(3,1)>>)>>))>>),
   Obj(<<T("Polygon"), C(Arr(<<Arr(<<P2(1,0), P2(4,1), P2(4,4), P2(1,3)>>)>>))>>),
   Obj(<<T("Polygon"), C(Arr(<<Ring2, Arr(<<P2(2,0), P2(3,2), P2(3,3), P2(2,3)>>)>>))>>),
   Obj(<<T("MultiPolygon"), C(Arr(<<Arr(<<Ring1>>), Arr(<<Arr(<<P2(0,0), P2(4,1), P2(4,4), P2(3,3)>>)>>)>>))>>),
   Obj(<<T("Feature"), <<"geometry", Obj(<<T("Polygon"), C(Arr(<<Arr(<<P3(0,1,2), P3(4,1,2), P3(4,4,2), P3(3,1,2)>>)>>))>>)>>>>)
>>
\* members named like the required member of ANOTHER type are foreign members, whatever their value (acceptance only: Mode "c07a";
\* the pinned code does not carry them to the output, so the round-trip universe leaves them out - see the assumptions of C06)
AlienDocs == <<
   Obj(<<T("Point"), C(P2(1,2)), <<"geometries", Str("none")>>>>),
   Obj(<<T("Feature"), <<"coordinates", Null>>, <<"geometry", PointD>>, <<"properties", Null>>>>),
   Obj(<<T("LineString"), <<"features", Num(1)>>, <<"geometry", Null>>, C(Arr(<<P2(1,1), P2(2,3)>>))>>),
   Obj(<<T("GeometryCollection"), <<"coordinates", Str("x")>>, <<"geometries", Arr(<<PointD>>)>>, <<"features", Obj(<<>>)>>>>),
   Obj(<<T("FeatureCollection"), <<"geometries", True>>, <<"features", Arr(<<>>)>>, <<"coordinates", Obj(<<>>)>>, <<"geometry", Num(1)>>>>),
   Obj(<<T("Polygon"), <<"geometry", Str("g")>>, C(Arr(<<Ring1>>)), <<"geometries", Null>>>>),
   Obj(<<T("MultiPoint"), <<"features", Null>>, C(Arr(<<P2(1,2)>>))>>)
>>
NMutable == IF Mode = "c08" THEN Len(CoreDocs) + Len(ExtraDocs) ELSE Len(CoreDocs)
BaseDocs == (IF Mode = "c08" THEN CoreDocs \o ExtraDocs \o BigDocs ELSE CoreDocs) \o (IF Mode = "c07a" THEN AlienDocs ELSE <<>>) \o DeepDocs \o NearDocs
\* (the last one: a JSON string whose CONTENT is a GeoJSON text - a string is not an object)
Repl == <<Null, True, Num(1), Str("Nope"), Arr(<<>>), Obj(<<>>), Arr(<<Num(1)>>), Arr(<<Num(1), Num(2), Num(3), Num(4), Num(5)>>), P2(6,6),
          Str("{\"type\":\"Point\",\"coordinates\":[1,2]}")>>
\* variants of a type name that are NOT type names (op Len(Repl)+7..+10 apply to the value of a "type" member only)
TypeNames == {"Point", "LineString", "Polygon", "MultiPoint", "MultiLineString", "MultiPolygon", "GeometryCollection", "FeatureCollection", "Feature"}
IsTypeStr(v) == v[1] = "s" /\ v[2] \in TypeNames
TypeVariant(v, k) == Str(CASE k = 1 -> "Multi" \o v[2] [] k = 2 -> v[2] \o "s" [] k = 3 -> v[2] \o " " [] OTHER -> " " \o v[2])
NOps == Len(Repl) + 10
\* mutation m = <<path, op>>
Apply(d, p, op) ==
   IF op <= Len(Repl) THEN Put(d, p, Repl[op])
   ELSE CASE op = Len(Repl) + 1 -> Del(d, p)
          [] op = Len(Repl) + 2 -> DupBefore(d, p, Null)
          [] op = Len(Repl) + 3 -> DupAfter(d, p, Str("Nope"))
          [] op = Len(Repl) + 4 -> DupBefore(d, p, Sub(d, p))
          [] op = Len(Repl) + 5 -> DupAfter(d, p, P2(6,6))
          [] op = Len(Repl) + 6 -> ToFront(d, p)
          [] OTHER -> IF IsTypeStr(Sub(d, p)) THEN Put(d, p, TypeVariant(Sub(d, p), op - Len(Repl) - 6)) ELSE d
RECURSIVE ApplyAll(_,_)
ApplyAll(d, ms) == IF ms = <<>> THEN d ELSE ApplyAll(Apply(d, ms[1][1], ms[1][2]), Tail(ms))
Doc == IF b = 0 THEN Null ELSE ApplyAll(BaseDocs[b], mut)
Init == b = 0 /\ mut = <<>>
Next == \/ b = 0 /\ \E k \in 1..Len(BaseDocs) : b' = k /\ mut' = <<>>
        \/ b > 0 /\ b <= NMutable /\ Len(mut) < MaxMut /\ \E p \in Paths(Doc) \ {<<>>} : \E op \in 1..NOps :
                                  /\ (op > Len(Repl) + 6 => IsTypeStr(Sub(Doc, p)))
                                  /\ mut' = Append(mut, <<p, op>>) /\ b' = b
Spec == Init /\ [][Next]_vars
\* base documents are well formed: they must be accepted
BaseAccepted == b > 0 /\ mut = <<>> => Verdict(BaseDocs[b]) = (IF b > Len(BaseDocs) - Len(NearDocs) THEN "rej" ELSE "acc")
Emit == b > 0 => LET d == Doc v == Verdict(d) l2 == AcceptL2(d) IN
        PrintT(ToString(<<"DOC", b, IF Len(mut) = 1 THEN mut[1] ELSE mut, d, v, IF v = "acc" THEN Decode(d) ELSE <<>>, l2[1], l2[2]>>))
\* T7a: where L1 decides, the transcription of the parser agrees, except at the listed sites (printed as DEV)
T7a == b > 0 => LET d == Doc v == Verdict(d) l2 == AcceptL2(d) IN
        v = "uns" \/ (v = "acc") = l2[1] \/ PrintT(ToString(<<"DEV", l2[2], v, d>>))
=============================================================================
