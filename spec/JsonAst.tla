-------------------------------- MODULE JsonAst --------------------------------
(***************************************************************************)
(* Abstract JSON values (what a document SAYS, independent of its          *)
(* spelling).  Tagged tuples so that they travel as JSON arrays:           *)
(*   <<"n",k>> number token k    <<"s",str>> string    <<"z">> null        *)
(*   <<"t">> true   <<"a",items>> array                                    *)
(*   <<"o",members>> object: ORDERED sequence of <<key,value>>, duplicate  *)
(*                   keys allowed                                          *)
(* Numbers are tokens: the concrete literal (and its float64 value) is a   *)
(* table of the harness; distinct tokens have distinct values.             *)
(***************************************************************************)
EXTENDS Integers, Sequences, FiniteSets
Tag(v) == v[1]
Num(k) == <<"n", k>>
Str(s) == <<"s", s>>
Null == <<"z">>
True == <<"t">>
Arr(items) == <<"a", items>>
Obj(members) == <<"o", members>>
IsNum(v) == Tag(v) = "n"
IsStr(v) == Tag(v) = "s"
IsArr(v) == Tag(v) = "a"
IsObj(v) == Tag(v) = "o"
IsNull(v) == Tag(v) = "z"
Items(v) == v[2]
Members(v) == v[2]
None == <<"none">>
MaxI(S) == CHOOSE i \in S : \A j \in S : j <= i
\* member lookup: for duplicate members the LAST one counts
Get(o, key) == LET idx == {i \in 1..Len(Members(o)) : Members(o)[i][1] = key}
               IN IF idx = {} THEN None ELSE Members(o)[MaxI(idx)][2]
Has(o, key) == Get(o, key) # None

\* ---- generic structure editing (the mutation catalogue is built from these)
RECURSIVE Paths(_), Sub(_,_), Put(_,_,_)
\* paths to every sub-value: sequences of child indexes (array items / member values)
Paths(v) ==
   IF IsArr(v) THEN {<<>>} \cup UNION {{<<i>> \o p : p \in Paths(Items(v)[i])} : i \in 1..Len(Items(v))}
   ELSE IF IsObj(v) THEN {<<>>} \cup UNION {{<<i>> \o p : p \in Paths(Members(v)[i][2])} : i \in 1..Len(Members(v))}
   ELSE {<<>>}
Sub(v, p) == IF p = <<>> THEN v
             ELSE IF IsArr(v) THEN Sub(Items(v)[p[1]], Tail(p))
             ELSE Sub(Members(v)[p[1]][2], Tail(p))
Put(v, p, new) ==
   IF p = <<>> THEN new
   ELSE IF IsArr(v) THEN Arr([Items(v) EXCEPT ![p[1]] = Put(@, Tail(p), new)])
   ELSE Obj([Members(v) EXCEPT ![p[1]] = <<@[1], Put(@[2], Tail(p), new)>>])
RemoveAt(s, i) == SubSeq(s, 1, i-1) \o SubSeq(s, i+1, Len(s))
InsertAt(s, i, x) == SubSeq(s, 1, i-1) \o <<x>> \o SubSeq(s, i, Len(s))
\* delete the child at path p (an array item or a whole member)
Del(v, p) == LET par == SubSeq(p, 1, Len(p)-1) i == p[Len(p)] pv == Sub(v, par) IN
             Put(v, par, IF IsArr(pv) THEN Arr(RemoveAt(Items(pv), i)) ELSE Obj(RemoveAt(Members(pv), i)))
\* duplicate the child at path p; the copy placed BEFORE it carries the value `other`
DupBefore(v, p, other) ==
   LET par == SubSeq(p, 1, Len(p)-1) i == p[Len(p)] pv == Sub(v, par) IN
   Put(v, par, IF IsArr(pv) THEN Arr(InsertAt(Items(pv), i, other))
               ELSE Obj(InsertAt(Members(pv), i, <<Members(pv)[i][1], other>>)))
DupAfter(v, p, other) ==
   LET par == SubSeq(p, 1, Len(p)-1) i == p[Len(p)] pv == Sub(v, par) IN
   Put(v, par, IF IsArr(pv) THEN Arr(InsertAt(Items(pv), i+1, other))
               ELSE Obj(InsertAt(Members(pv), i+1, <<Members(pv)[i][1], other>>)))
\* move the member at path p to the front of its object
ToFront(v, p) == LET par == SubSeq(p, 1, Len(p)-1) i == p[Len(p)] pv == Sub(v, par) IN
                 IF IsObj(pv) THEN Put(v, par, Obj(<<Members(pv)[i]>> \o RemoveAt(Members(pv), i))) ELSE v
=============================================================================
