------------------------------ MODULE Trace_C17 ------------------------------
(***************************************************************************)
(* Judges serialisations recorded from constructor-built objects: the four *)
(* entry points agree (same4), AppendJSON(prefix) = prefix + those bytes    *)
(* with the prefix untouched for every spare capacity (appendok, prefixok), *)
(* the bytes are valid JSON (valid) and WriterSpec!WellFormed(tree, out).      *)
(***************************************************************************)
EXTENDS WriterSpec, TraceBase
\* "ser": a constructor-built object (tree known); "ser2": an object built by Parse from a generated document
Good(e) == /\ e.valid /\ e.same4 /\ e.appendok /\ e.prefixok
           /\ (IF e.op = "ser" THEN WellFormed(e.tree, e.out) ELSE e.isobject)
Why(e) == IF ~e.valid THEN "output is not valid JSON" ELSE IF ~e.same4 THEN "JSON/String/MarshalJSON/AppendJSON(nil) differ"
          ELSE IF ~e.appendok THEN "AppendJSON(prefix) is not prefix + JSON()" ELSE IF ~e.prefixok THEN "AppendJSON modified the prefix"
          ELSE "type / coordinates nesting / null for non-finite ordinates"
Judge == pos > 0 =>
   LET e == Trace[pos] IN IF Good(e) THEN TRUE ELSE PrintT(ToString(<<"MISMATCH", pos, Why(e), "n/a", "writer">>))
=============================================================================
