------------------------------ MODULE WriterSpec ------------------------------
(***************************************************************************)
(* C17: the universe of constructor-built objects (any float coordinates:  *)
(* the integers NaN, PInf, NInf, NZero below stand for NaN, +Inf, -Inf and  *)
(* -0) and WellFormed(tree, out): what the serialisation of an object must  *)
(* say -- one JSON object whose "type" names the object's GeoJSON type and  *)
(* whose coordinates have the nesting the type requires, with non-finite    *)
(* ordinates written as null.                                               *)
(***************************************************************************)
EXTENDS JsonAst
NaN == 1000001
PInf == 1000002
NInf == 1000003
NZero == 1000004
Tok(v) == IF v \in {NaN, PInf, NInf} THEN Null ELSE Num(v)
PosA(p) == Arr(<<Tok(p[1]), Tok(p[2])>>)
PtsA(ps) == Arr([i \in 1..Len(ps) |-> PosA(ps[i])])
RingsA(rs) == Arr([i \in 1..Len(rs) |-> PtsA(rs[i])])
PolyEmpty(rs) == Len(rs) = 0 \/ Len(rs[1]) < 3
PolyA(rs) == IF PolyEmpty(rs) THEN Arr(<<>>) ELSE RingsA(rs)             \* an empty polygon is written without rings
OKind(o) == o[1]
ExpType(o) == CASE OKind(o) \in {"Point", "SimplePoint", "PointZ"} -> "Point"
                [] OKind(o) \in {"Polygon", "Rect"} -> "Polygon"
                [] OKind(o) = "Circle" -> "Feature"
                [] OTHER -> OKind(o)
RectRing(mn, mx) == <<mn, <<mx[1], mn[2]>>, mx, <<mn[1], mx[2]>>, mn>>
RECURSIVE WellFormed(_,_)
WellFormed(o, out) ==
   /\ IsObj(out)
   /\ Get(out, "type") = Str(ExpType(o))
   /\ CASE OKind(o) \in {"Point", "SimplePoint"} -> Get(out, "coordinates") = PosA(o[2])
        [] OKind(o) = "PointZ" -> Get(out, "coordinates") = Arr(<<Tok(o[2][1]), Tok(o[2][2]), Tok(o[3])>>)
        [] OKind(o) \in {"LineString", "MultiPoint"} -> Get(out, "coordinates") = PtsA(o[2])
        [] OKind(o) = "Polygon" -> Get(out, "coordinates") = PolyA(o[2])
        [] OKind(o) = "Rect" -> Get(out, "coordinates") = Arr(<<PtsA(RectRing(o[2], o[3]))>>)
        [] OKind(o) = "MultiLineString" -> Get(out, "coordinates") = RingsA(o[2])
        [] OKind(o) = "MultiPolygon" -> Get(out, "coordinates") = Arr([i \in 1..Len(o[2]) |-> PolyA(o[2][i])])
        [] OKind(o) \in {"GeometryCollection", "FeatureCollection"} ->
              LET key == IF OKind(o) = "GeometryCollection" THEN "geometries" ELSE "features" v == Get(out, key) IN
              /\ v # None /\ IsArr(v) /\ Len(Items(v)) = Len(o[2])
              /\ \A i \in 1..Len(o[2]) : WellFormed(o[2][i], Items(v)[i])
        [] OKind(o) = "Feature" -> Has(out, "geometry") /\ WellFormed(o[2], Get(out, "geometry"))
        [] OKind(o) = "Circle" ->
              /\ Has(out, "geometry") /\ WellFormed(<<"Point", o[2]>>, Get(out, "geometry"))
              /\ Has(out, "properties") /\ IsObj(Get(out, "properties"))
              /\ Get(Get(out, "properties"), "type") = Str("Circle")
              /\ Get(Get(out, "properties"), "radius") = (IF o[3] = -999 THEN Null ELSE Tok(o[3]))
              /\ Get(Get(out, "properties"), "radius_units") = Str("m")
=============================================================================
