------------------------------- MODULE Gen_C05 -------------------------------
(***************************************************************************)
(* The object universe of the C05 method sweep: every kind, with the       *)
(* degenerate outputs the public constructors accept (polygon without       *)
(* rings, lines of 0/1 points, rings of fewer than 3 points, zero-length    *)
(* segments, repeated vertices, empty and nested collections, circles with  *)
(* zero / negative / NaN (-999) / huge radius and step counts 0..4096,       *)
(* coordinates of large magnitude, series long enough to be indexed).       *)
(* The specification of the sweep is one sentence: every method called on   *)
(* every ordered pair of these objects returns normally (Trace_C05).        *)
(***************************************************************************)
EXTENDS ObjectsImpl, TLC
VARIABLE k
P(x, y) == <<x, y>>
Big == 65536
Zig(n) == [j \in 1..n |-> IF j % 2 = 1 THEN P(0, j) ELSE P(8, j)]
Same(n) == [j \in 1..n |-> P(3, 3)]
Sq == <<P(0,0), P(2,0), P(2,2), P(0,2), P(0,0)>>
MShape == <<P(0,0), P(2,0), P(2,2), P(1,1), P(0,2), P(0,0)>>
Leaves == <<
   <<"Point", P(0,0)>>, <<"Point", P(1,1)>>, <<"SimplePoint", P(2,0)>>, <<"Point", P(100, Big)>>,
   <<"LineString", <<>>>>, <<"LineString", <<P(0,0)>>>>, <<"LineString", <<P(1,1), P(1,1)>>>>,
   <<"LineString", <<P(0,0), P(1,0), P(2,0)>>>>, <<"LineString", <<P(0,0), P(1,0), P(1,1)>>>>,
   <<"LineString", <<P(0,0), P(0,1), P(0,0)>>>>, <<"LineString", <<P(0,0), P(0,1), P(0,2)>>>>, <<"LineString", <<P(0,0), P(2,2)>>>>,
   <<"LineString", Same(70)>>, <<"LineString", Zig(70)>>,
   <<"Polygon", <<>>>>, <<"Polygon", <<<<P(0,0)>>>>>>, <<"Polygon", <<<<P(0,0), P(1,1)>>>>>>,
   <<"Polygon", <<<<P(0,0), P(2,0), P(0,2), P(0,0)>>>>>>, <<"Polygon", <<<<P(0,0), P(2,0), P(2,2), P(0,2)>>>>>>,
   <<"Polygon", <<MShape>>>>, <<"Polygon", <<<<P(0,0), P(4,0), P(4,4), P(0,4), P(0,0)>>, <<P(1,1), P(2,1), P(2,2), P(1,2), P(1,1)>>>>>>,
   <<"Polygon", <<<<P(0,0), P(0,0), P(2,0), P(2,0), P(2,2), P(0,0)>>>>>>,
   <<"Polygon", <<<<P(0,0), P(Big,0), P(Big,Big), P(0,Big), P(0,0)>>>>>>,
   <<"Polygon", <<Same(70)>>>>, <<"Polygon", <<Zig(66)>>>>,
   <<"Rect", P(0,0), P(2,2)>>, <<"Rect", P(1,1), P(1,1)>>, <<"Rect", P(1,0), P(1,2)>>, <<"Rect", P(0,0), P(Big,Big)>>,
   <<"MultiPoint", <<>>>>, <<"MultiPoint", <<P(0,0), P(2,2)>>>>,
   <<"MultiLineString", <<>>>>, <<"MultiLineString", <<<<P(0,0)>>, <<P(0,0), P(2,0)>>>>>>,
   <<"MultiPolygon", <<<<>>>>>>, <<"MultiPolygon", <<<<Sq>>, <<MShape>>>>>>,
   <<"Circle", P(0,0), 0, 64>>, <<"Circle", P(1,1), -5, 3>>, <<"Circle", P(0,0), -999, 0>>, <<"Circle", P(0,0), 100000, 64>>,
   <<"Circle", P(0,89), 500000, 4096>>, <<"Circle", P(179,0), 30000000, 12>>, <<"Circle", P(2,2), 1, 1>>
>>
NLv == Len(Leaves)
Colls == <<
   <<"GeometryCollection", <<>>>>,
   <<"GeometryCollection", <<Leaves[1], Leaves[8], Leaves[18]>>>>,
   <<"GeometryCollection", <<Leaves[5], Leaves[15], <<"GeometryCollection", <<>>>>, Leaves[2]>>>>,
   <<"GeometryCollection", <<<<"GeometryCollection", <<Leaves[20], <<"Feature", Leaves[9]>>>>>>, Leaves[30]>>>>,
   <<"FeatureCollection", <<>>>>,
   <<"FeatureCollection", <<<<"Feature", Leaves[1]>>, <<"Feature", Leaves[21]>>, <<"Feature", Leaves[10]>>>>>>,
   <<"FeatureCollection", <<<<"Feature", <<"GeometryCollection", <<Leaves[8], Leaves[26]>>>>>>, Leaves[36]>>>>,
   <<"GeometryCollection", [j \in 1..70 |-> <<"Point", P(j % 5, j % 7)>>]>>
>>
All == Leaves \o [j \in 1..NLv |-> <<"Feature", Leaves[j]>>] \o Colls \o [j \in 1..Len(Colls) |-> <<"Feature", Colls[j]>>]
Init == k = 0
Next == k = 0 /\ \E j \in 1..Len(All) : k' = j
Spec == Init /\ [][Next]_k
HasCircle(o) == OKind(o) = "Circle" \/ (OKind(o) = "Feature" /\ OKind(o[2]) = "Circle")
Emit == k > 0 => PrintT(ToString(<<"OBJ", All[k]>>))
=============================================================================
