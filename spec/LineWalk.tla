------------------------------- MODULE LineWalk -------------------------------
(***************************************************************************)
(* L2 -- Line.ContainsLine (geometry/line.go:69-109) as a transition       *)
(* system: the one place in the library where PROGRESS is a property.      *)
(* State (pc, segIdx, i, res): Locate finds the first line segment that    *)
(* contains the first segment of `other`; each Loop step is one iteration  *)
(* of the for loop with its four branches (contained / rewind / forward /  *)
(* fall through).  Termination == <>(pc = "done") under weak fairness is   *)
(* theorem T6; Correct is the refinement invariant against L1.              *)
(***************************************************************************)
EXTENDS KernelImpl, SeriesImpl, TLC
CONSTANTS N, KLine, KOther
VARIABLES line, other, pc, segIdx, i, res
vars == <<line, other, pc, segIdx, i, res>>
Pts == (0..N) \X (0..N)
Octi(a, b) == LET dx == X(b)-X(a) dy == Y(b)-Y(a) IN (dx = 0 \/ dy = 0 \/ dx = dy \/ dx = -dy)
OctiLine(l) == \A k \in 1..(Len(l)-1) : Octi(l[k], l[k+1])
Lines(k) == {l \in [1..k -> Pts] : OctiLine(l)}
LS(j) == SegmentAtL2(line, j)
OS(j) == SegmentAtL2(other, j)
NL == NumSegmentsL2(line, FALSE)
NO == NumSegmentsL2(other, FALSE)
SegC(s, t) == ContainsSegmentL2(s[1], s[2], t[1], t[2])

Init == /\ line \in UNION {Lines(k) : k \in 2..KLine} /\ other \in UNION {Lines(k) : k \in 2..KOther}
        /\ pc = "locate" /\ segIdx = 0 /\ i = 1 /\ res = "none"
Locate == /\ pc = "locate"
          /\ LET js == {j \in 1..NL : SegC(LS(j), OS(1))} IN
             IF js = {} THEN pc' = "done" /\ res' = "false" /\ UNCHANGED <<segIdx, i>>
             ELSE /\ segIdx' = CHOOSE j \in js : \A k \in js : j <= k
                  /\ i' = 2 /\ pc' = "loop" /\ UNCHANGED res
          /\ UNCHANGED <<line, other>>
Loop == /\ pc = "loop"
        /\ IF i > NO THEN pc' = "done" /\ res' = "true" /\ UNCHANGED <<segIdx, i>>
           ELSE LET ls == LS(segIdx) os == OS(i) IN
                IF SegC(ls, os) THEN i' = i + 1 /\ UNCHANGED <<pc, segIdx, res>>             \* line.go:91 continue
                ELSE IF os[1] = ls[1] THEN                                                   \* line.go:93 reverse it
                        IF segIdx = 1 THEN pc' = "done" /\ res' = "false" /\ UNCHANGED <<segIdx, i>>
                        ELSE segIdx' = segIdx - 1 /\ UNCHANGED <<i, pc, res>>                \* segIdx--; i--; i++
                ELSE IF os[1] = ls[2] THEN                                                   \* line.go:100 forward it
                        IF segIdx = NL THEN pc' = "done" /\ res' = "false" /\ UNCHANGED <<segIdx, i>>
                        ELSE segIdx' = segIdx + 1 /\ UNCHANGED <<i, pc, res>>
                ELSE i' = i + 1 /\ UNCHANGED <<pc, segIdx, res>>                             \* falls through: the segment is skipped
        /\ UNCHANGED <<line, other>>
Next == Locate \/ Loop
Spec == Init /\ [][Next]_vars /\ WF_vars(Next)
Termination == <>(pc = "done")
\* L1: every point of `other` lies on `line` (octilinear lines: witnesses on the 4x grid)
On4(w, l) == \E j \in 1..(Len(l)-1) : OnSeg(w, <<4*X(l[j]), 4*Y(l[j])>>, <<4*X(l[j+1]), 4*Y(l[j+1])>>)
ContL1 == \A w \in (0..4*N) \X (0..4*N) : On4(w, other) => On4(w, line)
Correct == pc = "done" => (res = "true") = ContL1
=============================================================================
