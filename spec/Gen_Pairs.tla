------------------------------- MODULE Gen_Pairs -------------------------------
(***************************************************************************)
(* Phase 2 of the C02/C03/C12 universe.  Reads the shapes and witness       *)
(* masks printed by Gen_Shapes (file IOEnv.SHAPES, one JSON record per      *)
(* line: s = shape, m = mask bits, a = 1 when the shape is a representative *)
(* of its class under the lattice symmetries) and prints, for every         *)
(* representative A, the L1 answers against EVERY shape B:                   *)
(*     code = 2 * Contains(A,B) + Intersects(A,B).                           *)
(* Checks on every pair (theorem T3/T8 fragments): Intersects symmetric,    *)
(* Contains => Intersects, non-empty shapes contain themselves.              *)
(***************************************************************************)
EXTENDS Integers, Sequences, FiniteSets, TLC, Json, IOUtils
Sh == ndJsonDeserialize(IOEnv.SHAPES)
NS == Len(Sh)
MaskTab == TLCEval([i \in 1..NS |-> {k \in 1..Len(Sh[i].m) : Sh[i].m[k] = 1}])
AIdx == TLCEval(SelectSeq([i \in 1..NS |-> i], LAMBDA i : Sh[i].a = 1))
NA == Len(AIdx)
GroupSize == 16
NG == (NA + GroupSize - 1) \div GroupSize
VARIABLES g, a
vars == <<g, a>>
Init == g = 0 /\ a = 0
Next == \/ g = 0 /\ \E k \in 1..NG : g' = k /\ a' = 0
        \/ g > 0 /\ a = 0 /\ \E k \in 1..GroupSize : (g-1)*GroupSize + k <= NA /\ a' = AIdx[(g-1)*GroupSize + k] /\ g' = g
Spec == Init /\ [][Next]_vars
Inter(i, j) == MaskTab[i] \cap MaskTab[j] # {}
Cont(i, j) == MaskTab[j] # {} /\ MaskTab[j] \subseteq MaskTab[i]
Code(i, j) == (IF Cont(i, j) THEN 2 ELSE 0) + (IF Inter(i, j) THEN 1 ELSE 0)
Laws == a > 0 => \A j \in 1..NS : /\ Inter(a, j) = Inter(j, a)
                                  /\ (Cont(a, j) => Inter(a, j))
                                  /\ (MaskTab[a] # {} => Cont(a, a))
Emit == a > 0 => PrintT(ToString(<<"PAIR", a, [j \in 1..NS |-> Code(a, j)]>>))
=============================================================================
