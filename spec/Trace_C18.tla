------------------------------ MODULE Trace_C18 ------------------------------
(***************************************************************************)
(* Judges events recorded from geometry.Series (Convex, Clockwise,         *)
(* NumSegments, SegmentAt, Empty, Rect) against L1 (Series); mismatches    *)
(* are printed with the L2 prediction (SeriesImpl).                        *)
(***************************************************************************)
EXTENDS SeriesImpl, TraceBase
Exp(e) ==
   CASE e.op = "convex" -> ConvexS(e.ring)
     [] e.op = "clockwise" -> ClockwiseS(e.ring)
     [] e.op = "nseg" -> NSegS(e.ring, e.closed)
     [] e.op = "seg" -> SegAtS(e.ring, e.i + 1)
     [] e.op = "empty" -> EmptyS(e.ring, e.closed)
     [] e.op = "bbox" -> BBoxS(e.ring)
Pred(e) ==
   CASE e.op = "convex" -> <<PP(e.ring, TRUE).convex, "series.go:processPoints">>
     [] e.op = "clockwise" -> <<PP(e.ring, TRUE).clockwise, "series.go:processPoints">>
     [] e.op = "nseg" -> <<NumSegmentsL2(e.ring, e.closed), "series.go:NumSegments">>
     [] e.op = "seg" -> <<SegmentAtL2(e.ring, e.i + 1), "series.go:SegmentAt">>
     [] e.op = "empty" -> <<EmptyL2(e.ring, e.closed), "series.go:Empty">>
     [] e.op = "bbox" -> <<PP(e.ring, e.closed).rect, "series.go:processPoints">>
Judge == pos > 0 =>
   LET e == Trace[pos] IN
   IF e.got = Exp(e) THEN TRUE
   ELSE PrintT(ToString(<<"MISMATCH", pos, Exp(e), Pred(e)[1], Pred(e)[2]>>))
=============================================================================
