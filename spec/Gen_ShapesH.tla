------------------------------ MODULE Gen_ShapesH ------------------------------
(***************************************************************************)
(* The "structured holes" universe of C02 / C03 / C12: on the 10x10 lattice *)
(* a square (also an L- and a U-shaped) exterior with every ordered pair and triple of pairwise         *)
(* disjoint holes from a catalogue of six (small, wide, tall, triangular;   *)
(* the ORDER of the holes is part of the shape), and the shapes that probe  *)
(* them: every lattice point, unit and full-width horizontal / vertical     *)
(* segments, unit and 2x2 boxes, the plugs of the holes.  Answers come from *)
(* PlanarGeneral (no witness grid of that size is needed).                  *)
(***************************************************************************)
EXTENDS Planar, TLC
VARIABLES k, sel, ext
M == 9
RSegs(r) == {SegAtS(r, i) : i \in 1..NSegS(r, TRUE)}
Box(a, b, c, d) == <<<<a,b>>, <<c,b>>, <<c,d>>, <<a,d>>, <<a,b>>>>
\* two of the six holes are concave (a dart and an L): a convex ring is tested point by point, a concave one segment by segment
HoleCat == << Box(1,1,2,2), Box(4,4,5,5), Box(1,7,8,8), Box(7,1,8,6), <<<<3,1>>, <<6,1>>, <<5,2>>, <<6,3>>, <<3,1>>>>,
              <<<<1,3>>, <<3,3>>, <<3,4>>, <<2,4>>, <<2,6>>, <<1,6>>, <<1,3>>>>,
              \* a large U-shaped hole (it has lattice points strictly inside, and segments between them that leave it): only alone
              <<<<1,1>>, <<8,1>>, <<8,8>>, <<6,8>>, <<6,3>>, <<3,3>>, <<3,8>>, <<1,8>>, <<1,1>>>> >>
\* exteriors: the square, an L and a U (concave: segments between two interior points can leave the polygon)
ExtCat == << Box(0, 0, M, M),
             <<<<0,0>>, <<9,0>>, <<9,4>>, <<4,4>>, <<4,9>>, <<0,9>>, <<0,0>>>>,
             <<<<0,0>>, <<9,0>>, <<9,9>>, <<6,9>>, <<6,3>>, <<3,3>>, <<3,9>>, <<0,9>>, <<0,0>>>> >>
Fits(h, e) == /\ \A s \in RSegs(h) : \A t \in RSegs(e) : ~SegInter(s[1], s[2], t[1], t[2])
              /\ InRingClosed(h[1], e)
NH == Len(HoleCat)
Apart(r1, r2) == /\ \A s \in RSegs(r1) : \A t \in RSegs(r2) : ~SegInter(s[1], s[2], t[1], t[2])
                 /\ ~InRingClosed(r1[1], r2) /\ ~InRingClosed(r2[1], r1)
Init == k = 0 /\ sel = <<>> /\ ext = 1
Next == \/ k = 0 /\ \E j \in 1..4 : k' = j /\ sel' = <<>> /\ (IF j = 1 THEN ext' \in 1..Len(ExtCat) ELSE ext' = 1)
        \/ k = 1 /\ Len(sel) < (IF ext = 1 THEN 3 ELSE 2) /\ UNCHANGED ext
                 /\ \E h \in 1..NH : (\A i \in 1..Len(sel) : sel[i] # h /\ Apart(HoleCat[sel[i]], HoleCat[h])) /\ Fits(HoleCat[h], ExtCat[ext])
                                                    /\ sel' = Append(sel, h) /\ k' = k
Spec == Init /\ [][Next]_<<k, sel, ext>>
P(s) == PrintT(ToString(<<"SHAPE", s>>))
Emit ==
   /\ (k = 1 /\ (Len(sel) >= 1 \/ ext > 1)) => P(<<"poly", ExtCat[ext], [i \in 1..Len(sel) |-> HoleCat[sel[i]]]>>)
   /\ (k = 2) => \A x \in 0..M : \A y \in 0..M : P(<<"pt", <<x, y>>>>)
   /\ (k = 3) => /\ \A y \in 0..M : P(<<"line", <<<<0, y>>, <<M, y>>>>>>) /\ P(<<"line", <<<<y, 0>>, <<y, M>>>>>>)
                 /\ \A x \in 0..(M-1) : \A y \in 0..M : P(<<"line", <<<<x, y>>, <<x+1, y>>>>>>) /\ P(<<"line", <<<<y, x>>, <<y, x+1>>>>>>)
                 /\ \A y \in 0..M : P(<<"line", <<<<2, y>>, <<7, y>>>>>>) /\ P(<<"line", <<<<y, 2>>, <<y, 7>>>>>>)
                 /\ P(<<"line", <<<<2, 2>>, <<7, 7>>>>>>) /\ P(<<"line", <<<<2, 7>>, <<7, 2>>>>>>) /\ P(<<"line", <<<<2, 2>>, <<7, 4>>>>>>)
                 /\ P(<<"line", <<<<2, 6>>, <<2, 2>>, <<7, 2>>, <<7, 6>>>>>>) /\ P(<<"line", <<<<2, 6>>, <<7, 6>>, <<7, 2>>>>>>)
                 /\ \A x \in 0..(M-2) : \A y \in 1..(M-1) : (x + y) % 3 = 0 => P(<<"line", <<<<x, y>>, <<x+2, y+1>>, <<x+2, y>>>>>>)
   /\ (k = 4) => /\ \A x \in 0..(M-1) : \A y \in 0..(M-1) : P(<<"rect", <<x, y>>, <<x+1, y+1>>>>)
                 /\ \A x \in 0..(M-2) : \A y \in 0..(M-2) : (x + y) % 2 = 0 => P(<<"rect", <<x, y>>, <<x+2, y+2>>>>)
                 /\ \A h \in 1..NH : P(<<"poly", HoleCat[h], <<>>>>)
                 /\ P(<<"poly", ExtCat[1], <<>>>>) /\ P(<<"rect", <<0, 0>>, <<M, M>>>>) /\ P(<<"rect", <<1, 1>>, <<8, 8>>>>)
=============================================================================
