-------------------------------- MODULE Planar --------------------------------
(***************************************************************************)
(* L1 -- exact closed point sets of the four planar geometry kinds and the *)
(* predicates between them.                                                *)
(*                                                                         *)
(* Shapes (tuples, so that they travel as JSON arrays):                    *)
(*    <<"pt", p>>   <<"rect", min, max>>   <<"line", pts>>                  *)
(*    <<"poly", exterior, holes>>    (rings are point sequences; the       *)
(*                                    closing segment is implicit when     *)
(*                                    last # first)                        *)
(* Point membership In(p, s) is exact for ANY integer shape (parity        *)
(* semantics, so self-intersecting and unclosed rings are defined too).    *)
(***************************************************************************)
EXTENDS Series

Kind(s) == s[1]

OnRing(p, r) == \E i \in 1..NSegS(r, TRUE) : OnSeg(p, SegAtS(r,i)[1], SegAtS(r,i)[2])
Parity(p, r) == Cardinality({i \in 1..NSegS(r, TRUE) : RayCross(p, SegAtS(r,i)[1], SegAtS(r,i)[2])}) % 2 = 1
\* closed region of a ring: on the boundary, or odd crossing parity
InRingClosed(p, r) == OnRing(p, r) \/ Parity(p, r)
\* strictly inside
InRingOpen(p, r) == ~OnRing(p, r) /\ Parity(p, r)
OnLine(p, l) == \E i \in 1..NSegS(l, FALSE) : OnSeg(p, SegAtS(l,i)[1], SegAtS(l,i)[2])

\* a point is in a polygon iff it lies on the exterior boundary or has odd
\* crossing parity with the exterior, and is not strictly inside any hole
InPoly(p, ext, holes) == InRingClosed(p, ext) /\ \A h \in 1..Len(holes) : ~InRingOpen(p, holes[h])

In(p, s) ==
   CASE Kind(s) = "pt"   -> p = s[2]
     [] Kind(s) = "rect" -> PtInRect(p, <<X(s[2]), Y(s[2]), X(s[3]), Y(s[3])>>)
     [] Kind(s) = "line" -> OnLine(p, s[2])
     [] Kind(s) = "poly" -> InPoly(p, s[2], s[3])

\* point-set preserving inflations of a series (used to push small cases past
\* the index thresholds): insert the midpoint of every segment (coordinates
\* must be even), repeat every vertex
Subdivide(r, closed) ==
   LET n == Len(r)
       Mid(i) == LET a == r[i] b == IF i = n THEN r[1] ELSE r[i+1] IN <<(X(a)+X(b)) \div 2, (Y(a)+Y(b)) \div 2>>
       last == IF closed THEN n ELSE n - 1          \* vertices followed by a midpoint
   IN [k \in 1..(n + last) |-> IF k % 2 = 1 THEN r[(k+1) \div 2] ELSE Mid(k \div 2)]
Repeat(r) == [k \in 1..(2*Len(r)) |-> r[(k+1) \div 2]]
=============================================================================
