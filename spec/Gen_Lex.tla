------------------------------- MODULE Gen_Lex -------------------------------
(* Test generation from the state graph of the JSON automaton (JsonLex): TLC visits every
   automaton state reachable inside four host contexts (VIEW hides the history, so each state
   keeps one witness text), and for every state and every atom emits the text
        witness . atom . completion
   with its verdict, computed by running the automaton over host prefix state, text and host
   suffix: one test per transition of the automaton, legal or not.  Under -simulate the same
   module yields random long texts. *)
EXTENDS JsonLex, TLC
CONSTANTS MaxW,      \* witnesses are told apart by the number of whitespace bytes between tokens inside the fragment's own containers, up to MaxW
                     \* (the implementation removes such bytes from foreign members, so what follows them is shifted)
          MaxD,      \* containers a fragment may open above its context
          MaxLen,    \* bound on the witness length (only reached under -simulate)
          Ctxs       \* the host contexts explored
VARIABLES s, h, c, w
vars == <<s, h, c, w>>
view == <<s, c, w>>
\* contexts: 1 whole text; 2 value of the last member of the root object; 3 first element of an array inside the root
\* object (a coordinate); 4 value of a member of an object inside the root object (a property); 5 value of the first
\* member of the root object (another member follows); 6 like 3, but only the atoms a number is made of are tried
\* (used under -simulate: long random number spellings, legal or broken by one atom)
Base == <<  <<>>, <<"o">>, <<"o", "a">>, <<"o", "o">>, <<"o">>, <<"o", "a">>, <<"o", "a">>  >>
Suffix == <<  <<>>, <<RBrace>>, <<Comma, Digit, RBrack, RBrace>>, <<RBrace, RBrace>>, <<Comma, Quote, Other, Quote, Colon, Quote, Other, Quote, RBrace>>,
              <<Comma, Digit, RBrack, RBrace>>, <<Comma, Digit, RBrack, RBrace>>  >>
\* context 7: like 6 without exponents - plain decimals of every length up to MaxLen (15 to 17 significant digits are where
\* a hand-written decimal decoder goes wrong)
NumAtoms == {Zero, Digit, Minus, Plus, Dot, AtE, BigE}
PlainAtoms == {Zero, Digit, Minus, Dot}
AtomsOf(k) == IF k = 6 THEN NumAtoms ELSE IF k = 7 THEN PlainAtoms ELSE Atoms
Init == \E k \in Ctxs : c = k /\ s = S("val", Base[k]) /\ h = <<>> /\ w = 0
Next == /\ s.m # "dead" /\ Len(h) < MaxLen
        /\ \E a \in AtomsOf(c) : LET t == Step(s, a) IN
              /\ t.m # "dead" /\ Len(t.st) <= Len(Base[c]) + MaxD
              /\ s' = t /\ h' = Append(h, a) /\ c' = c
              /\ w' = IF IsWs(a) /\ s.m \notin {"str", "esc", "u1", "u2", "u3", "u4"} /\ Len(s.st) > Len(Base[c]) /\ w < MaxW THEN w + 1 ELSE w
Spec == Init /\ [][Next]_vars
Valid(k, txt) == Final(Run(S("val", Base[k]), txt \o Suffix[k]))
\* a completed witness is valid (theorem about FinishToken / CloseTo, checked on every state);
\* a fragment that closed its context and did not reopen the same one cannot be completed from inside and is exempt
CompleteOK == LET t == Run(s, FinishToken(s)) IN
                 Len(t.st) >= Len(Base[c]) /\ SubSeq(t.st, 1, Len(Base[c])) = Base[c] /\ (s.m = "done" => c = 1)
                 => Valid(c, h \o CompleteTo(s, Len(Base[c])))
Emit == /\ PrintT(ToString(<<"LEX", c, h, Valid(c, h)>>))
        /\ \A a \in AtomsOf(c) : LET t == Step(s, a)
                                tx == Append(h, a) \o CompleteTo(IF t.m = "dead" THEN s ELSE t, Len(Base[c]))
                            IN PrintT(ToString(<<"LEX", c, tx, Valid(c, tx)>>))
=============================================================================
