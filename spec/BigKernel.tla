------------------------------- MODULE BigKernel -------------------------------
(***************************************************************************)
(* L1 kernels for LARGE coordinates.  TLC integers are 32 bit, so the cross *)
(* products of Kernel overflow beyond |coordinate| ~ 2^14.  The property's   *)
(* domain reaches 2^20 (differences 2^21, products 2^42 - still exact in     *)
(* float64).  Here the SIGN of a cross product is computed exactly with      *)
(* 14-bit limbs (schoolbook multiplication, every intermediate < 2^31), for  *)
(* coordinate differences up to 2^27.  All predicates of Kernel that only    *)
(* need that sign are restated on top of it; TLC checks BigKernel = Kernel   *)
(* on small coordinates (theorem T1big in Gen_C19).                          *)
(***************************************************************************)
EXTENDS Integers, Sequences
LB == 16384                                            \* 2^14
AbsB(v) == IF v < 0 THEN -v ELSE v
SgnB(v) == IF v > 0 THEN 1 ELSE IF v < 0 THEN -1 ELSE 0
\* |a*b| as three limbs <<top, mid, low>> (base 2^14), for |a|,|b| < 2^27
MulMag(a, b) ==
   LET x == AbsB(a) y == AbsB(b)
       xh == x \div LB  xl == x % LB  yh == y \div LB  yl == y % LB
       t0 == xl * yl
       t1 == xh * yl + xl * yh + (t0 \div LB)
       t2 == xh * yh + (t1 \div LB)
   IN <<t2, t1 % LB, t0 % LB>>
CmpMag(p, q) == IF p[1] # q[1] THEN SgnB(p[1] - q[1]) ELSE IF p[2] # q[2] THEN SgnB(p[2] - q[2]) ELSE SgnB(p[3] - q[3])
\* sign of a*b - c*d
SgnDiffProd(a, b, c, d) ==
   LET sp == SgnB(a) * SgnB(b)  sq == SgnB(c) * SgnB(d) IN
   IF sp # sq THEN SgnB(sp - sq)
   ELSE IF sp = 0 THEN 0
   ELSE sp * CmpMag(MulMag(a, b), MulMag(c, d))
PXb(p) == p[1]
PYb(p) == p[2]
\* sign of the cross product (a-o) x (b-o)
SgnCross(o, a, b) == SgnDiffProd(PXb(a)-PXb(o), PYb(b)-PYb(o), PYb(a)-PYb(o), PXb(b)-PXb(o))
MinB(a, b) == IF a < b THEN a ELSE b
MaxB(a, b) == IF a > b THEN a ELSE b
InBoxB(p, a, b) == /\ MinB(PXb(a),PXb(b)) <= PXb(p) /\ PXb(p) <= MaxB(PXb(a),PXb(b))
                   /\ MinB(PYb(a),PYb(b)) <= PYb(p) /\ PYb(p) <= MaxB(PYb(a),PYb(b))
OnSegB(p, a, b) == SgnCross(a, b, p) = 0 /\ InBoxB(p, a, b)
CollinearB(a, b, p) == SgnCross(a, b, p) = 0
RayCrossB(p, a, b) ==
   LET lo == IF PYb(a) < PYb(b) THEN a ELSE b
       hi == IF PYb(a) < PYb(b) THEN b ELSE a
   IN PYb(a) # PYb(b) /\ PYb(lo) <= PYb(p) /\ PYb(p) < PYb(hi) /\ SgnCross(lo, hi, p) > 0
RaycastSemB(a, b, p) == IF OnSegB(p, a, b) THEN "on" ELSE IF RayCrossB(p, a, b) THEN "in" ELSE "out"
SegInterB(a, b, c, d) ==
   LET d1 == SgnCross(a,b,c) d2 == SgnCross(a,b,d) d3 == SgnCross(c,d,a) d4 == SgnCross(c,d,b) IN
   \/ (d1*d2 < 0 /\ d3*d4 < 0)
   \/ OnSegB(c,a,b) \/ OnSegB(d,a,b) \/ OnSegB(a,c,d) \/ OnSegB(b,c,d)
SegContainsB(a, b, c, d) == OnSegB(c, a, b) /\ OnSegB(d, a, b)
\* point membership for rings with large coordinates (same definitions as Planar on top of the big kernels)
NSegB(r) == IF Len(r) < 3 THEN 0 ELSE IF r[Len(r)] = r[1] THEN Len(r) - 1 ELSE Len(r)
SegAtB(r, i) == <<r[i], IF i = Len(r) THEN r[1] ELSE r[i+1]>>
OnRingB(p, r) == \E i \in 1..NSegB(r) : OnSegB(p, SegAtB(r,i)[1], SegAtB(r,i)[2])
CrossCount(p, r) == LET RECURSIVE F(_) F(i) == IF i > NSegB(r) THEN 0 ELSE (IF RayCrossB(p, SegAtB(r,i)[1], SegAtB(r,i)[2]) THEN 1 ELSE 0) + F(i+1) IN F(1)
InRingClosedB(p, r) == OnRingB(p, r) \/ CrossCount(p, r) % 2 = 1
=============================================================================
