------------------------------ MODULE Trace_C13 ------------------------------
(***************************************************************************)
(* Judges Circle events recorded from the real code:                       *)
(*  "pt"    a point-in-circle decision on the great-circle lattice         *)
(*          (centre c, radius <<m,q>>, probe p, lattice of NP positions);   *)
(*  "cc"    circle / circle contains and intersects on the lattice;         *)
(*  "frac"  a probe placed at distance f/10000 of the radius from the       *)
(*          centre at some bearing: inside exactly when f <= 10000;         *)
(*  "ccf"   two circles at free positions: contains only if d + rb <= ra,    *)
(*          intersects iff d <= ra + rb (both call directions agree);        *)
(*  "dist"  Object.Distance between point-like objects at lattice positions  *)
(*          c and p: D(c,p) steps of u (within 50 millionths of u), and the  *)
(*          same in both call directions;                                     *)
(*  "ser"   Circle -> JSON -> Parse gives a Circle with the same centre and *)
(*          radius (also km units and a radius given as a string);          *)
(*  "shape" the polygon approximation is a closed ring whose rectangle      *)
(*          contains the centre; steps below 3 are clamped.                 *)
(***************************************************************************)
EXTENDS Sphere1D, TraceBase
Good(e) ==
   CASE e.op = "pt" -> e.got = ContainsPt(e.c, e.r, e.p)
     [] e.op = "cc" -> (e.kind = "contains" /\ (AmbiguousContains(e.c, e.r, e.c2, e.r2) \/ e.got = ContainsCircle(e.c, e.r, e.c2, e.r2)))
                       \/ (e.kind = "intersects" /\ (AmbiguousIntersects(e.c, e.r, e.c2, e.r2) \/ e.got = IntersectsCircle(e.c, e.r, e.c2, e.r2)))
     [] e.op = "frac" -> e.got = (e.f <= 10000)
     \* two circles anywhere (centimetres to megametres): centre distance d and radius rb in millionths of ra; events too close to
     \* a threshold are not recorded.  Contains only if d + rb <= ra; intersects iff d <= ra + rb
     [] e.op = "ccf" -> /\ (e.contains => e.d + e.rb <= 1000000) /\ (e.intersects <=> e.d <= 1000000 + e.rb)
                        /\ (e.contains => e.intersects) /\ e.symmetric
     [] e.op = "dist" -> e.steps = D(e.c, e.p) /\ e.err_ppm <= 50 /\ e.symmetric
     [] e.op = "ser" -> e.iscircle /\ e.samecentre /\ e.sameradius
     [] e.op = "shape" -> e.closed /\ e.rectHasCentre /\ e.steps >= 3
Judge == pos > 0 =>
   LET e == Trace[pos] IN IF Good(e) THEN TRUE ELSE PrintT(ToString(<<"MISMATCH", pos, e.op, "n/a", "circle.go">>))
=============================================================================
