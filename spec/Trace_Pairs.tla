------------------------------ MODULE Trace_Pairs ------------------------------
(***************************************************************************)
(* The explain pass for C02 / C03 / C12 (DESIGN.md 3.3).  Each event is a   *)
(* real call  A.ContainsX(B)  or  X.IntersectsY(Z)  whose reply differed    *)
(* from the L1 answer TLC generated (field exp), with the operands exactly  *)
(* as they were encoded (A, B) and as lattice shapes (A0, B0).  The module   *)
(* (a) re-derives the L1 answer from the witness-grid definition on A0, B0,  *)
(* (b) evaluates the L2 transcription of the pinned algorithms on A, B and   *)
(* names the decision site responsible, and prints one EXPLAIN line.         *)
(***************************************************************************)
EXTENDS PlanarImpl, PlanarPairs, TraceBase, SequencesExt

\* the L1 answer: the one TLC generated (field exp), re-derived from the witness-grid
\* definition for the events marked chk (a sample; the derivation costs four masks)
PG == INSTANCE PlanarGeneral
ExpL1(e) == IF "chkg" \in DOMAIN e       \* general-slope universe: the definition of PlanarGeneral
            THEN B2S(IF e.op = "con" THEN PG!ContainsG(e.A0, e.B0) ELSE PG!IntersectsG(e.A0, e.B0))
            ELSE IF "chk" \in DOMAIN e
            THEN B2S(IF e.op = "con" THEN Contains(e.A0, e.B0) ELSE Intersects(e.A0, e.B0))
            ELSE B2S(e.exp)
GotStr(e) == IF e.out = "ok" THEN B2S(e.got) ELSE IF e.runaway THEN "runaway" ELSE "panic"
PredSet(e) == IF e.op = "con" THEN ContainsSetL2(e.A, e.B)
              ELSE IF e.recv = "A" THEN {B2S(IntersectsL2(e.A, e.B))} ELSE {B2S(IntersectsL2(e.B, e.A))}
\* which part of the algorithm is responsible for a deviating Contains answer
ConSite(e) ==
   LET ka == Kind(e.A) kb == Kind(e.B) IN
   IF ka = "line" THEN "line.go:69-109"
   ELSE IF ka = "poly" /\ kb \in {"line", "rect", "poly"} THEN
        LET extL2 == IF kb = "line" THEN RingContainsRingL2(RingOp(e.A[2]), OpenOp(e.B[2]), TRUE)
                     ELSE RingContainsRingL2(RingOp(e.A[2]), PolyOf(e.B).ext, TRUE)
            holeSite == IF kb = "line" THEN "poly.go:128-141" ELSE "poly.go:158-186"
        IN IF e.exp /\ ~extL2 THEN "ring.go:99-243"              \* the exterior step rejects something that is contained
           ELSE IF e.exp THEN holeSite                             \* the exterior step accepts, the hole rule rejects
           ELSE IF Len(e.A[3]) = 0 THEN "ring.go:99-243"           \* no holes: the exterior step accepted wrongly
           ELSE holeSite                                           \* holes present: the hole rule failed to reject
   ELSE "method-table"
Judge == pos > 0 =>
   LET e == Trace[pos] IN
   PrintT(ToString(<<"MISMATCH", pos, ExpL1(e), SetToSeq(PredSet(e)), IF e.op = "con" THEN ConSite(e) ELSE "intersects">>))
=============================================================================
