---------------------------- MODULE Trace_C04Move ----------------------------
(***************************************************************************)
(* C04, last clause: "a moved (translated) shape keeps answering as an      *)
(* index-free shape would", for offsets that are NOT exactly representable  *)
(* sums (dx = -0.1, 1e-7, 123.456, ...).  Integer arithmetic cannot place   *)
(* the moved points, so the event relates two real answers: the segments an *)
(* indexed series reports after Move(dx,dy) and the segments an index-free  *)
(* series built from the same moved points reports, for the same query      *)
(* rectangle (both sorted; each position at most once).                     *)
(***************************************************************************)
EXTENDS TraceBase
NoDup(s) == \A i \in 1..Len(s) : \A j \in (i+1)..Len(s) : s[i] # s[j]
Judge == pos > 0 =>
   LET e == Trace[pos] IN
   IF e.indexed = e.plain /\ NoDup(e.indexed) THEN TRUE
   ELSE PrintT(ToString(<<"MISMATCH", pos, "moved indexed series reports other segments than the index-free one", "n/a", "series.go:Move">>))
=============================================================================
