---------------------------- MODULE PlanarGeneral ----------------------------
(***************************************************************************)
(* L1 -- the pair predicates for shapes with edges of ANY slope (the        *)
(* witness-grid definition of PlanarPairs only covers the octilinear        *)
(* fragment).  Exact integer / rational arithmetic:                          *)
(*                                                                           *)
(*  IntersectsG(A,B): two connected closed sets meet iff their skeletons     *)
(*    (boundary rings, line segments, the point) meet, or a point of one     *)
(*    lies in the other.                                                     *)
(*  ContainsG(A,B): B is non-empty and (i) every skeleton segment of B lies  *)
(*    in A -- the segment is cut at every point where it meets the skeleton  *)
(*    of A (rational parameters), membership is constant on each open piece  *)
(*    and decided at its midpoint, A is closed -- and (ii) if B has area,    *)
(*    A has area too and no hole of A lies inside B (decided at one interior  *)
(*    point of the hole, taken from the x3 refinement of the lattice: every   *)
(*    simple lattice polygon has an ear whose centroid is such a point).      *)
(*                                                                           *)
(* Theorem TG (checked by Gen_PairsG on octilinear pairs): both agree with    *)
(* the witness-grid definition of PlanarPairs.                                *)
(***************************************************************************)
EXTENDS Planar, SequencesExt

\* ---- skeletons
RingSegs(r) == {SegAtS(r, i) : i \in 1..NSegS(r, TRUE)}
LineSegs(l) == {SegAtS(l, i) : i \in 1..NSegS(l, FALSE)}
BoxRing(mn, mx) == <<mn, <<X(mx), Y(mn)>>, mx, <<X(mn), Y(mx)>>, mn>>
AsPoly(s) == IF Kind(s) = "rect" THEN <<"poly", BoxRing(s[2], s[3]), <<>>>> ELSE s
Skel(s0) ==
   LET s == AsPoly(s0) IN
   CASE Kind(s) = "pt"   -> {<<s[2], s[2]>>}
     [] Kind(s) = "line" -> IF Len(s[2]) = 1 THEN {<<s[2][1], s[2][1]>>} ELSE LineSegs(s[2])
     [] Kind(s) = "poly" -> RingSegs(s[2]) \cup UNION {RingSegs(s[3][h]) : h \in 1..Len(s[3])}
Rep(s0) ==
   LET s == AsPoly(s0) IN
   CASE Kind(s) = "pt" -> s[2] [] Kind(s) = "line" -> s[2][1] [] Kind(s) = "poly" -> s[2][1]

IntersectsG(A, B) ==
   \/ \E sa \in Skel(A) : \E sb \in Skel(B) : SegInter(sa[1], sa[2], sb[1], sb[2])
   \/ In(Rep(B), A) \/ In(Rep(A), B)

\* ---- rational parameters along a segment p -> q, as <<num, den>> with den > 0
Cx(u, v) == X(u) * Y(v) - Y(u) * X(v)
Dt(u, v) == X(u) * X(v) + Y(u) * Y(v)
Sub(a, b) == <<X(a) - X(b), Y(a) - Y(b)>>
Norm(n, d) == IF d < 0 THEN <<-n, -d>> ELSE <<n, d>>
RLe(r1, r2) == r1[1] * r2[2] <= r2[1] * r1[2]
RLt(r1, r2) == r1[1] * r2[2] < r2[1] * r1[2]
In01(r) == r[1] >= 0 /\ r[1] <= r[2]
\* where segment e = (a,b) meets the carrier of (p,q), as parameters of (p,q) within [0,1]
CutParams(p, q, a, b) ==
   LET d == Sub(q, p) f == Sub(b, a) den == Cx(d, f) IN
   IF den # 0 THEN (IF SegInter(p, q, a, b) THEN {Norm(Cx(Sub(a, p), f), den)} ELSE {})
   ELSE IF Cx(Sub(a, p), d) # 0 THEN {}
   ELSE {r \in {Norm(Dt(Sub(a, p), d), Dt(d, d)), Norm(Dt(Sub(b, p), d), Dt(d, d))} : In01(r)}
\* one representative per rational value (reduced fractions), sorted
RECURSIVE Gcd(_, _)
Gcd(a, b) == IF b = 0 THEN a ELSE Gcd(b, a % b)
Reduce(r) == IF r[1] = 0 THEN <<0, 1>> ELSE LET g == Gcd(IF r[1] < 0 THEN -r[1] ELSE r[1], r[2]) IN <<r[1] \div g, r[2] \div g>>
Cuts(p, q, A) ==
   LET all == {<<0, 1>>, <<1, 1>>} \cup UNION {{Reduce(r) : r \in CutParams(p, q, e[1], e[2])} : e \in Skel(A)}
   IN SetToSortSeq(all, RLt)
ScalePt(p, k) == <<k * X(p), k * Y(p)>>
ScalePts(r, k) == [i \in 1..Len(r) |-> ScalePt(r[i], k)]
ScaleShape(s, k) ==
   CASE Kind(s) = "pt"   -> <<"pt", ScalePt(s[2], k)>>
     [] Kind(s) = "rect" -> <<"rect", ScalePt(s[2], k), ScalePt(s[3], k)>>
     [] Kind(s) = "line" -> <<"line", ScalePts(s[2], k)>>
     [] Kind(s) = "poly" -> <<"poly", ScalePts(s[2], k), [h \in 1..Len(s[3]) |-> ScalePts(s[3][h], k)]>>
\* is the point p + (n/d) (q - p) in A ?
InAt(p, q, n, d, A) == In(<<d * X(p) + n * (X(q) - X(p)), d * Y(p) + n * (Y(q) - Y(p))>>, ScaleShape(A, d))
SegInRegion(p, q, A) ==
   IF p = q THEN In(p, A)
   ELSE LET c == Cuts(p, q, A) IN
        \A i \in 1..(Len(c) - 1) :
           LET r1 == c[i] r2 == c[i+1] IN InAt(p, q, r1[1] * r2[2] + r2[1] * r1[2], 2 * r1[2] * r2[2], A)

\* ---- area and hole interiors
Area2(r) == LET n == Len(r) IN FoldLeft(LAMBDA acc, i : acc + Cx(r[i], r[IF i = n THEN 1 ELSE i + 1]), 0, [i \in 1..n |-> i])
HasArea(s0) == LET s == AsPoly(s0) IN Kind(s) = "poly" /\ Area2(s[2]) # 0
\* an interior point of the simple ring h on the x3 grid, as a point of the x3-scaled plane
SMin(S) == CHOOSE m \in S : \A k \in S : m <= k
SMax(S) == CHOOSE m \in S : \A k \in S : m >= k
Xs(r) == {X(r[i]) : i \in 1..Len(r)}
Ys(r) == {Y(r[i]) : i \in 1..Len(r)}
InteriorPt3(h) ==
   LET h3 == ScalePts(h, 3)
       cand == {<<x, y>> : x \in (3 * SMin(Xs(h)))..(3 * SMax(Xs(h))), y \in (3 * SMin(Ys(h)))..(3 * SMax(Ys(h)))}
   IN CHOOSE p \in cand : InRingOpen(p, h3)

ContainsG(A0, B0) ==
   LET A == AsPoly(A0) B == AsPoly(B0) IN
   /\ \A sb \in Skel(B) : SegInRegion(sb[1], sb[2], A)
   /\ HasArea(B) =>
        /\ HasArea(A)
        /\ \A k \in 1..Len(A[3]) : ~In(InteriorPt3(A[3][k]), ScaleShape(B, 3))
=============================================================================
