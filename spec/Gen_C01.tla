------------------------------- MODULE Gen_C01 -------------------------------
(***************************************************************************)
(* Exhaustive generator for C01.  Vertex sequences (no restriction: self-  *)
(* intersecting, repeated vertices, collinear runs, zero area) of length   *)
(* MinK..K over the coarse lattice 2*(0..N)^2 are built by Next; each is    *)
(* judged as a polygon exterior, as a hole of a fixed exterior, and as a    *)
(* line string against EVERY query point of the fine lattice (-1..2N+1)^2.  *)
(* Mode "rect" enumerates all rectangles instead.                           *)
(* Checks in the same pass: PlanarImpl = Planar (T4pip) and invariance of   *)
(* L1 under subdivision/repetition/rotation/closing (T1pip).                *)
(***************************************************************************)
EXTENDS PlanarImpl, TLC
CONSTANTS N, MinK, K, Mode
VARIABLES seq
Coarse == {<<2*i, 2*j>> : i \in 0..N, j \in 0..N}
W == 2*N + 3                                   \* fine lattice is (-1..2N+1)^2
NQ == W * W
Q(i) == <<((i-1) \div W) - 1, ((i-1) % W) - 1>>
B2I(x) == IF x THEN 1 ELSE 0
Mask(s) == [i \in 1..NQ |-> B2I(In(Q(i), s))]

Init == seq = <<>>
Next == IF Mode = "rect"
        THEN Len(seq) < 2 /\ \E p \in {Q(i) : i \in 1..NQ} :
                (Len(seq) = 1 => X(seq[1]) <= X(p) /\ Y(seq[1]) <= Y(p)) /\ seq' = Append(seq, p)
        ELSE Len(seq) < K /\ \E p \in Coarse : seq' = Append(seq, p)
Spec == Init /\ [][Next]_seq

\* fixed exteriors for the hole stratum (square, L-shape, bow-tie, unclosed triangle)
BigSquare == <<<<0,0>>, <<2*N,0>>, <<2*N,2*N>>, <<0,2*N>>, <<0,0>>>>
LShape == <<<<0,0>>, <<2*N,0>>, <<2*N,2>>, <<2,2>>, <<2,2*N>>, <<0,2*N>>, <<0,0>>>>
BowTie == <<<<0,0>>, <<2*N,2*N>>, <<2*N,0>>, <<0,2*N>>>>
Exteriors == <<BigSquare, LShape, BowTie>>
SmallHole == <<<<2,2>>, <<4,2>>, <<4,4>>, <<2,4>>, <<2,2>>>>

Shapes == IF Mode = "rect" THEN (IF Len(seq) = 2 THEN << <<"rect", seq[1], seq[2]>> >> ELSE <<>>)
          ELSE IF Len(seq) < MinK THEN <<>>
          ELSE IF Mode = "ring" THEN << <<"poly", seq, <<>> >>, <<"line", seq>> >>
          ELSE IF Mode = "hole" THEN [e \in 1..Len(Exteriors) |-> <<"poly", Exteriors[e], <<seq>> >>]
                                      \o << <<"poly", BigSquare, <<SmallHole, seq>> >>, <<"poly", BigSquare, <<seq, SmallHole>> >> >>
          ELSE <<>>

T4pip == \A k \in 1..Len(Shapes) : \A i \in 1..NQ : InL2(Q(i), Shapes[k]) = In(Q(i), Shapes[k])
T1pip == Mode = "ring" /\ Len(seq) >= MinK =>
         \A i \in 1..NQ : LET p == Q(i) IN
            /\ InRingClosed(p, Subdivide(seq, TRUE)) = InRingClosed(p, seq)
            /\ InRingClosed(p, Repeat(seq)) = InRingClosed(p, seq)
            /\ InRingClosed(p, Append(seq, seq[1])) = InRingClosed(p, seq)
            /\ (Len(StripClose(seq)) >= 3 => InRingClosed(p, Rot(StripClose(seq), 1)) = InRingClosed(p, seq))
            /\ InRingClosed(p, Rev(seq)) = InRingClosed(p, seq)
            /\ OnLine(p, Subdivide(seq, FALSE)) = OnLine(p, seq)
            /\ OnLine(p, Repeat(seq)) = OnLine(p, seq)
Emit == \A k \in 1..Len(Shapes) : PrintT(ToString(<<"C01", Shapes[k], Mask(Shapes[k])>>))
=============================================================================
