-------------------------------- MODULE Gen_Obj --------------------------------
(***************************************************************************)
(* Generator for C09 / C10: an object universe over a discriminating set    *)
(* of lattice leaves (points, two-point lines, rectangles, convex polygons  *)
(* -- shapes on which the leaf predicates are exact, file IOEnv.LEAVES),     *)
(* empty leaves, Features, every two-child GeometryCollection, Multi*        *)
(* objects, nested and partly empty collections, FeatureCollections.         *)
(* OBJ rows give the tree and its L1 facts; REL rows give, for object a and  *)
(* every object b, L1 and L2 codes  inter + 2*contains(a,b) + 4*within(a,b). *)
(***************************************************************************)
EXTENDS ObjectsPred
Idx(kinds) == SelectSeq([i \in 1..NLf |-> i], LAMBDA i : Lf[i].k \in kinds)
PtI == TLCEval(Idx({"Point", "SimplePoint"}))
LnI == TLCEval(Idx({"LineString"}))
PgI == TLCEval(Idx({"Polygon"}))
L(i) == <<"leaf", i>>
F(o) == <<"feat", o>>
Coll(kind, kids) == <<"coll", kind, kids>>
Empties == << <<"emp", "LineString0">>, <<"emp", "LineString1">>, <<"emp", "PolygonNil">>, <<"emp", "Polygon2">> >>
Atoms == [i \in 1..NLf |-> L(i)] \o Empties
Pairs(s) == LET n == Len(s) IN [k \in 1..(n*n) |-> <<s[((k-1) \div n) + 1], s[((k-1) % n) + 1]>>]
MapSeq(s, G(_)) == [i \in 1..Len(s) |-> G(s[i])]
MultiPts == MapSeq(Pairs(PtI), LAMBDA p : Coll("MultiPoint", <<L(p[1]), L(p[2])>>)) \o <<Coll("MultiPoint", <<>>), Coll("MultiPoint", <<L(PtI[1]), L(PtI[2]), L(PtI[1])>>)>>
MultiLns == MapSeq(Pairs(LnI), LAMBDA p : Coll("MultiLineString", <<L(p[1]), L(p[2])>>))
            \o <<Coll("MultiLineString", <<>>), Coll("MultiLineString", <<Empties[2], L(LnI[1])>>)>>
MultiPgs == MapSeq(Pairs(PgI), LAMBDA p : Coll("MultiPolygon", <<L(p[1]), L(p[2])>>))
            \o <<Coll("MultiPolygon", <<Empties[3]>>), Coll("MultiPolygon", <<L(PgI[1]), Empties[4], L(PgI[2])>>)>>
GC2 == MapSeq(Pairs(Atoms), LAMBDA p : Coll("GeometryCollection", <<p[1], p[2]>>))
Special == <<
   Coll("GeometryCollection", <<>>), Coll("FeatureCollection", <<>>),
   Coll("GeometryCollection", <<Coll("GeometryCollection", <<>>), Empties[1]>>),
   Coll("GeometryCollection", <<L(PgI[1]), Coll("GeometryCollection", <<L(PtI[1]), L(LnI[1])>>), Empties[3]>>),
   Coll("GeometryCollection", <<F(L(PgI[2])), F(Coll("MultiPoint", <<L(PtI[1]), L(PtI[3])>>))>>),
   Coll("FeatureCollection", <<F(L(PgI[1])), F(L(PgI[2]))>>),
   Coll("FeatureCollection", <<F(L(PtI[1])), F(Coll("MultiPoint", <<L(PtI[2]), L(PtI[3])>>)), F(Empties[1])>>),
   Coll("FeatureCollection", <<F(Coll("GeometryCollection", <<L(PgI[3]), L(LnI[2])>>)), F(L(PtI[2]))>>),
   F(Coll("MultiPoint", <<L(PtI[1]), L(PtI[2])>>)), F(Coll("GeometryCollection", <<L(PgI[1]), L(PtI[4])>>)),
   F(F(L(PgI[1])))
>>
\* collections with more children than the default child-index threshold (64): facts and searches only
Big == <<
   Coll("GeometryCollection", [j \in 1..70 |-> L(PtI[(j % Len(PtI)) + 1])]),
   Coll("FeatureCollection", [j \in 1..66 |-> IF j % 9 = 0 THEN F(Empties[1]) ELSE F(L(((j * 7) % NLf) + 1))]),
   Coll("MultiPoint", [j \in 1..65 |-> L(PtI[(j % 3) + 1])]),
   \* exactly 64 non-empty children (the default threshold) among 70, and 63 among 70
   Coll("GeometryCollection", [j \in 1..70 |-> IF j \in {3, 11, 29, 40, 58, 70} THEN Empties[((j % 4) + 1)] ELSE L(((j * 5) % NLf) + 1)]),
   Coll("GeometryCollection", [j \in 1..70 |-> IF j \in {1, 3, 11, 29, 40, 58, 70} THEN Empties[((j % 4) + 1)] ELSE L(((j * 5) % NLf) + 1)])
>>
\* a nested collection FIRST, then a leaf (and the reverse): early-stop signals must cross the nesting boundary
NestedFirst == MapSeq(Pairs(<<1, 2, 3, 4>>), LAMBDA p : Coll("GeometryCollection", <<MultiPts[p[1] * 5 + p[2]], L(PtI[p[2]])>>))
               \o MapSeq(Pairs(<<1, 2, 3>>), LAMBDA p : Coll("GeometryCollection", <<Coll("GeometryCollection", <<L(PtI[p[1]]), L(PtI[p[2] + 1])>>), L(PgI[p[2]]), L(PtI[p[1] + 2])>>))
               \o MapSeq(Pairs(<<1, 2, 3>>), LAMBDA p : Coll("FeatureCollection", <<F(Coll("MultiPoint", <<L(PtI[p[1]]), L(PtI[p[2] + 2])>>)), F(L(PtI[p[2]]))>>))
Univ == TLCEval(Atoms \o MapSeq(Atoms, F) \o MultiPts \o MultiLns \o MultiPgs \o Special \o GC2 \o NestedFirst \o Big)
NRel == Len(Univ) - Len(Big)                 \* objects that take part in relations
NU == Len(Univ)
NCore == TLCEval(Len(Atoms) * 2 + Len(MultiPts) + Len(MultiLns) + Len(MultiPgs) + Len(Special))   \* objects used as `a`
\* ---- the tree a harness builds (Objects.tla tuples)
RECURSIVE TreeOf(_)
LeafTree(i) == LET s == Lf[i].s k == Lf[i].k IN
               CASE k \in {"Point", "SimplePoint"} -> <<k, s[2]>>
                 [] k = "LineString" -> <<k, s[2]>>
                 [] k = "Polygon" -> <<k, <<s[2]>> \o s[3]>>
                 [] k = "Rect" -> <<k, s[2], s[3]>>
EmpTree(kind) == CASE kind = "LineString0" -> <<"LineString", <<>>>>
                   [] kind = "LineString1" -> <<"LineString", <<<<1,1>>>>>>
                   [] kind = "PolygonNil" -> <<"Polygon", <<>>>>
                   [] kind = "Polygon2" -> <<"Polygon", <<<<<<0,0>>, <<1,1>>>>>>>>
TreeOf(o) == CASE OTag(o) = "leaf" -> LeafTree(o[2])
               [] OTag(o) = "emp" -> EmpTree(o[2])
               [] OTag(o) = "feat" -> <<"Feature", TreeOf(o[2])>>
               [] OTag(o) = "coll" ->
                    (CASE o[2] = "MultiPoint" -> <<"MultiPoint", [i \in 1..Len(o[3]) |-> TreeOf(o[3][i])[2]]>>
                       [] o[2] = "MultiLineString" -> <<"MultiLineString", [i \in 1..Len(o[3]) |-> TreeOf(o[3][i])[2]]>>
                       [] o[2] = "MultiPolygon" -> <<"MultiPolygon", [i \in 1..Len(o[3]) |-> TreeOf(o[3][i])[2]]>>
                       [] OTHER -> <<o[2], [i \in 1..Len(o[3]) |-> TreeOf(o[3][i])]>>)
Queries == << <<0,0,3,3>>, <<0,0,0,0>>, <<1,1,2,2>>, <<3,0,3,3>>, <<-5,-5,-4,-4>>, <<2,2,2,2>>, <<0,3,3,3>>, <<-9,-9,9,9>> >>
SetSeq(S) == SelectSeq([i \in 1..80 |-> i], LAMBDA i : i \in S)
B2I(x) == IF x THEN 1 ELSE 0
Code(a, b, strip) == B2I(Inter(a, b, strip)) + 2 * B2I(Cont(a, b, strip)) + 4 * B2I(Cont(b, a, strip))

VARIABLES g, a, mode
vars == <<g, a, mode>>
GS == 8
Init == g = 0 /\ a = 0 /\ mode = "obj"
Next == \/ g = 0 /\ mode = "obj" /\ \E k \in 1..((NU + 63) \div 64) : g' = k /\ a' = 0 /\ mode' = "obj"
        \/ g > 0 /\ a = 0 /\ mode = "obj" /\ \E k \in 1..64 : (g-1)*64 + k <= NU /\ a' = (g-1)*64 + k /\ g' = g /\ mode' = "objrow"
        \/ g = 0 /\ mode = "obj" /\ \E k \in 1..((NCore + GS - 1) \div GS) : g' = k /\ a' = 0 /\ mode' = "rel"
        \/ g > 0 /\ a = 0 /\ mode = "rel" /\ \E k \in 1..GS : (g-1)*GS + k <= NCore /\ a' = (g-1)*GS + k /\ g' = g /\ mode' = "relrow"
Spec == Init /\ [][Next]_vars
EmitObj == mode = "objrow" =>
   LET o == Univ[a] IN
   PrintT(ToString(<<"OBJ", a, TreeOf(o), B2I(IsEmpty(o)), IF IsEmpty(o) THEN <<>> ELSE RectOf(o),
                     IF IsColl(o) THEN [q \in 1..Len(Queries) |-> SetSeq(SearchSemC(o, Queries[q]))] ELSE <<>>,
                     B2I(a <= NCore)>>))
EmitRel == mode = "relrow" =>
   PrintT(ToString(<<"REL", a, [b \in 1..NRel |-> <<Code(Univ[a], Univ[b], TRUE), Code(Univ[a], Univ[b], FALSE)>>]>>))
\* C09 laws on the model: intersects symmetric, contains => intersects and rectangle covered
Laws == mode = "relrow" => \A b \in 1..NRel : LET A == Univ[a] B == Univ[b] IN
          /\ Inter(A, B, TRUE) = Inter(B, A, TRUE)
          /\ (Cont(A, B, TRUE) /\ ~IsEmpty(B) => Inter(A, B, TRUE) /\ Covers4(RectOf(A), RectOf(B)))
          /\ (Inter(A, B, TRUE) => Meets4(RectOf(A), RectOf(B)))
=============================================================================
