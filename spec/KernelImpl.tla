------------------------------ MODULE KernelImpl ------------------------------
(***************************************************************************)
(* L2 -- what geometry/raycast.go and geometry/segment.go DO, transcribed   *)
(* branch by branch onto integer coordinates.  Float operations are        *)
(* replaced by their exact meaning under assumption A-float (DESIGN 2.1):   *)
(* the division equality of Raycast becomes "cross product = 0 with both    *)
(* denominators non-zero", the Nextafter nudge a half-open comparison.      *)
(***************************************************************************)
EXTENDS Kernel

\* Segment.Raycast (raycast.go:12-99): "on" / "in" / "out"
RaycastL2(a,b,p) ==
  IF Y(a) < Y(b) /\ (Y(p) < Y(a) \/ Y(p) > Y(b)) THEN "out"                 \* raycast.go:16
  ELSE IF Y(a) > Y(b) /\ (Y(p) < Y(b) \/ Y(p) > Y(a)) THEN "out"            \* raycast.go:18
  ELSE IF Y(a) = Y(b) /\ X(a) = X(b) THEN (IF p = a THEN "on" ELSE "out")   \* raycast.go:24-29
  ELSE IF Y(a) = Y(b) /\ Y(p) = Y(b) /\ Min(X(a),X(b)) <= X(p) /\ X(p) <= Max(X(a),X(b)) THEN "on"  \* :30-43
  ELSE IF X(a) = X(b) /\ X(p) = X(b) /\ Min(Y(a),Y(b)) <= Y(p) /\ Y(p) <= Max(Y(a),Y(b)) THEN "on"  \* :45-58
  \* raycast.go:59  (p.X-a.X)/(b.X-a.X) == (p.Y-a.Y)/(b.Y-a.Y): with a zero denominator
  \* the quotient is +-Inf or NaN and never equals a finite quotient; Inf == Inf needs both zero
  ELSE IF X(a) # X(b) /\ Y(a) # Y(b) /\ Cross(a,b,p) = 0 THEN "on"
  ELSE \* the ray part; p.Y is nudged up by one ulp while level with an endpoint (:64-66)
    LET lvl == Y(p) = Y(a) \/ Y(p) = Y(b)
        lo == IF Y(a) < Y(b) THEN a ELSE b
        hi == IF Y(a) < Y(b) THEN b ELSE a
        inY == IF lvl THEN (Y(lo) <= Y(p) /\ Y(p) < Y(hi)) ELSE (Y(lo) <= Y(p) /\ Y(p) <= Y(hi))
    IN IF ~inY THEN "out"                                                   \* :67-75
       ELSE IF X(p) >= Max(X(a),X(b)) THEN "out"                            \* :77,84
       ELSE IF X(p) <= Min(X(a),X(b)) THEN "in"                             \* :80,87
       ELSE IF Cross(lo,hi,p) > 0 THEN "in" ELSE "out"                      \* slope test :91-97

CollinearPointL2(a,b,p) ==                                                  \* segment.go:38-43
  LET cmpx == X(p)-X(a) cmpy == Y(p)-Y(a) rx == X(b)-X(a) ry == Y(b)-Y(a)
  IN cmpx*ry - cmpy*rx = 0

ContainsPointL2(a,b,p) == RaycastL2(a,b,p) = "on"                           \* segment.go:45-47

BoxMeetL2(a,b,c,d) ==                                                       \* segment.go:56-97
   /\ Min(Y(a),Y(b)) <= Max(Y(c),Y(d)) /\ Max(Y(a),Y(b)) >= Min(Y(c),Y(d))
   /\ Min(X(a),X(b)) <= Max(X(c),X(d)) /\ Max(X(a),X(b)) >= Min(X(c),X(d))

\* collinear branch, bounding boxes meet, no shared endpoint, c not "between" a and b
\* (segment.go:110-112, after the fix commit that added the third disjunct)
CollinearNested(a,b,c,d) == RaycastL2(a,b,c) = "on" \/ RaycastL2(a,b,d) = "on" \/ RaycastL2(c,d,a) = "on"

\* Segment.IntersectsSegment (segment.go:54-131): <<answer, site>>
SegIntersectsSiteL2(a,b,c,d) ==
  IF ~BoxMeetL2(a,b,c,d) THEN <<FALSE, "segment.go:bbox">>
  ELSE IF a = c \/ a = d \/ b = c \/ b = d THEN <<TRUE, "segment.go:100">>
  ELSE LET cmpx == X(c)-X(a) cmpy == Y(c)-Y(a) rx == X(b)-X(a) ry == Y(b)-Y(a)
           cmpxr == cmpx*ry - cmpy*rx
       IN IF cmpxr = 0 THEN
            IF ~( ((X(c)-X(a) <= 0) # (X(c)-X(b) <= 0)) \/ ((Y(c)-Y(a) <= 0) # (Y(c)-Y(b) <= 0)) )
            THEN <<CollinearNested(a,b,c,d), "segment.go:110">>
            ELSE <<TRUE, "segment.go:113">>
          ELSE LET sx == X(d)-X(c) sy == Y(d)-Y(c)
                   cmpxs == cmpx*sy - cmpy*sx
                   rxs == rx*sy - ry*sx
               IN IF rxs = 0 THEN <<FALSE, "segment.go:119">>
                  ELSE \* t = cmpxs/rxs and u = cmpxr/rxs both in [0,1]
                    <<IF rxs > 0 THEN 0 <= cmpxs /\ cmpxs <= rxs /\ 0 <= cmpxr /\ cmpxr <= rxs
                                 ELSE 0 >= cmpxs /\ cmpxs >= rxs /\ 0 >= cmpxr /\ cmpxr >= rxs,
                      "segment.go:parametric">>
SegIntersectsL2(a,b,c,d) == SegIntersectsSiteL2(a,b,c,d)[1]

ContainsSegmentL2(a,b,c,d) == RaycastL2(a,b,c) = "on" /\ RaycastL2(a,b,d) = "on"   \* segment.go:134-136
=============================================================================
