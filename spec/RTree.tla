--------------------------------- MODULE RTree ---------------------------------
(***************************************************************************)
(* L2 index machine: geometry/rtree.go as a transition system.             *)
(* An entry is [r |-> rect, item |-> i] (leaf level) or [r |-> rect,        *)
(* node |-> sequence of entries].  One action per rTree.Insert call made    *)
(* by buildIndex; choose-least-enlargement with its tie rules, the edge-    *)
(* snap split with swap-removal order and the `equals` redistribution, and  *)
(* recalc are transcribed statement by statement.  Search returns hits in   *)
(* callback order; SearchC is the compressed form (rRect.compress /          *)
(* rnCompressSearch) with the variable-width leaf item encoding, radix B.   *)
(***************************************************************************)
EXTENDS Kernel, TLC
CONSTANTS MaxEntries,   \* rMaxEntries (16 in the code)
          Alphabet, MaxN, B
VARIABLES root, height, rects          \* root = <<>> (nil) or <<entry>>
rvars == <<root, height, rects>>

Expand(r, b) == <<Min(r[1],b[1]), Min(r[2],b[2]), Max(r[3],b[3]), Max(r[4],b[4])>>    \* rtree.go:28-38
Contains(r, b) == ~(b[1] < r[1] \/ b[3] > r[3] \/ b[2] < r[2] \/ b[4] > r[4])             \* rtree.go:113-121
Area(r) == (r[3]-r[1]) * (r[4]-r[2])
\* area of r enlarged to cover b, computed per axis as the code does (rtree.go:78-93)
EnlargedArea(r, b) ==
   LET Ax(lo, hi, blo, bhi) == IF bhi > hi THEN (IF blo < lo THEN bhi - blo ELSE bhi - lo)
                               ELSE (IF blo < lo THEN hi - blo ELSE hi - lo)
   IN Ax(r[1], r[3], b[1], b[3]) * Ax(r[2], r[4], b[2], b[4])
ChooseLeastEnlargement(kids, b) ==                                                       \* rtree.go:65-101
   LET RECURSIVE F(_,_,_,_)
       F(i, j, jenl, jarea) ==
          IF i > Len(kids) THEN j
          ELSE LET area == Area(kids[i].r)
                   enl == EnlargedArea(kids[i].r, b) - area
               IN IF j = 0 \/ enl < jenl THEN F(i+1, i, enl, area)
                  ELSE IF enl = jenl /\ area < jarea THEN F(i+1, i, enl, area)
                  ELSE F(i+1, j, jenl, jarea)
   IN F(1, 0, 0, 0)
Recalc(kids) == LET RECURSIVE F(_,_) F(i, acc) == IF i > Len(kids) THEN acc ELSE F(i+1, Expand(acc, kids[i].r))
                IN F(2, kids[1].r)                                                       \* rtree.go:103-110
LargestAxis(r) == IF (r[4]-r[2]) > (r[3]-r[1]) THEN 2 ELSE 1                             \* rtree.go:123-132 (axis 1 = x)
Lo(r, ax) == IF ax = 1 THEN r[1] ELSE r[2]
Hi(r, ax) == IF ax = 1 THEN r[3] ELSE r[4]
\* splitLargestAxisEdgeSnap (rtree.go:134-176): returns <<left entry, right entry>>
Split(e) ==
   LET ax == LargestAxis(e.r)
       RECURSIVE Loop(_,_,_,_)
       \* L: remaining left array (swap-removal), i: 1-based scan index, R: right array, Eq: equals
       Loop(L, i, R, Eq) ==
          IF i > Len(L) THEN <<L, R, Eq>>
          ELSE LET minD == Lo(L[i].r, ax) - Lo(e.r, ax)
                   maxD == Hi(e.r, ax) - Hi(L[i].r, ax)
                   L2 == SubSeq([L EXCEPT ![i] = L[Len(L)]], 1, Len(L) - 1)     \* rects[i] = rects[count-1]; count--
               IN IF minD < maxD THEN Loop(L, i+1, R, Eq)
                  ELSE IF minD > maxD THEN Loop(L2, i, Append(R, L[i]), Eq)
                  ELSE Loop(L2, i, R, Append(Eq, L[i]))
       res == Loop(e.node, 1, <<>>, <<>>)
       RECURSIVE Dist(_,_,_)
       Dist(L, R, k) == IF k > Len(res[3]) THEN <<L, R>>
                        ELSE IF Len(L) < Len(R) THEN Dist(Append(L, res[3][k]), R, k+1)
                        ELSE Dist(L, Append(R, res[3][k]), k+1)
       lr == Dist(res[1], res[2], 1)
   IN <<[r |-> Recalc(lr[1]), node |-> lr[1]], [r |-> Recalc(lr[2]), node |-> lr[2]]>>
RECURSIVE InsertE(_,_,_)
\* rRect.insert (rtree.go:178-200): returns <<entry', grown>>; the entry's own rect is expanded by the caller
InsertE(e, it, h) ==
   IF h = 0 THEN <<[e EXCEPT !.node = Append(@, it)], ~Contains(e.r, it.r)>>
   ELSE LET idx == ChooseLeastEnlargement(e.node, it.r)
            sub == InsertE(e.node[idx], it, h - 1)
            child1 == IF sub[2] THEN [sub[1] EXCEPT !.r = Expand(@, it.r)] ELSE sub[1]
            grown == IF sub[2] THEN ~Contains(e.r, it.r) ELSE FALSE
            kids1 == [e.node EXCEPT ![idx] = child1]
            kids2 == IF Len(child1.node) = MaxEntries + 1
                     THEN LET s == Split(child1) IN Append([kids1 EXCEPT ![idx] = s[1]], s[2])
                     ELSE kids1
        IN <<[e EXCEPT !.node = kids2], grown>>
\* rTree.insert (rtree.go:47-63): returns <<root entry, height>>
TInsert(rt, ht, it) ==
   LET r0 == IF rt = <<>> THEN [r |-> it.r, node |-> <<>>] ELSE rt[1]
       sub == InsertE(r0, it, ht)
       r1 == IF sub[2] THEN [sub[1] EXCEPT !.r = Expand(@, it.r)] ELSE sub[1]
   IN IF Len(r1.node) = MaxEntries + 1
      THEN LET s == Split(r1) kids == <<s[1], s[2]>> IN <<[r |-> Recalc(kids), node |-> kids], ht + 1>>
      ELSE <<r1, ht>>

RECURSIVE SearchE(_,_,_)
SearchE(e, q, h) ==                                                                       \* rtree.go:225-252
   LET RECURSIVE F(_)
       F(i) == IF i > Len(e.node) THEN <<>>
               ELSE (IF RectMeets(q, e.node[i].r)
                     THEN (IF h = 0 THEN <<e.node[i].item>> ELSE SearchE(e.node[i], q, h - 1))
                     ELSE <<>>) \o F(i+1)
   IN F(1)
TSearch(rt, ht, q) == IF rt = <<>> THEN <<>> ELSE IF RectMeets(q, rt[1].r) THEN SearchE(rt[1], q, ht) ELSE <<>>

\* ---- compressed form (rtree.go:282-382): node rect, count byte, leaf items with width = max numBytes(item)
NumBytes(n) == IF n <= B - 1 THEN 1 ELSE IF n <= B*B - 1 THEN 2 ELSE 4
Pow(k) == IF k = 1 THEN B ELSE IF k = 2 THEN B*B ELSE B*B*B*B
MaxOf(s, init) == LET RECURSIVE F(_,_) F(i,m) == IF i > Len(s) THEN m ELSE F(i+1, IF s[i] > m THEN s[i] ELSE m) IN F(1, init)
RECURSIVE SearchCE(_,_,_,_)
SearchCE(e, rs, q, h) ==
   IF ~RectMeets(q, e.r) THEN <<>>                                                       \* rtree.go:352-354
   ELSE IF h = 0 THEN
      LET ib == MaxOf([i \in 1..Len(e.node) |-> NumBytes(e.node[i].item)], 1)
          its == [i \in 1..Len(e.node) |-> e.node[i].item % Pow(ib)]
      IN SelectSeq(its, LAMBDA it : RectMeets(rs[it + 1], q))
   ELSE LET RECURSIVE F(_) F(i) == IF i > Len(e.node) THEN <<>> ELSE SearchCE(e.node[i], rs, q, h - 1) \o F(i+1) IN F(1)
TSearchC(rt, ht, rs, q) == IF rt = <<>> THEN <<>> ELSE SearchCE(rt[1], rs, q, ht)

RInit == root = <<>> /\ height = 0 /\ rects = <<>>
RInsert == /\ Len(rects) < MaxN
           /\ \E rc \in Alphabet :
                 LET res == TInsert(root, height, [r |-> rc, item |-> Len(rects)])
                 IN root' = <<res[1]>> /\ height' = res[2] /\ rects' = Append(rects, rc)
RNext == RInsert
RSpec == RInit /\ [][RNext]_rvars

\* ---- invariants (theorem T5)
RECURSIVE LeafItems(_,_), Covered(_,_), CapOK(_,_)
LeafItems(e, h) == IF h = 0 THEN [i \in 1..Len(e.node) |-> e.node[i].item]
                   ELSE LET RECURSIVE F(_) F(i) == IF i > Len(e.node) THEN <<>> ELSE LeafItems(e.node[i], h-1) \o F(i+1) IN F(1)
EachOnce == (root = <<>> /\ rects = <<>>) \/
            LET its == LeafItems(root[1], height) IN
            Len(its) = Len(rects) /\ {its[i] : i \in DOMAIN its} = 0..(Len(rects)-1)
Covered(e, h) == /\ \A i \in 1..Len(e.node) : RectInside(e.node[i].r, e.r)
                 /\ (h > 0 => \A i \in 1..Len(e.node) : Covered(e.node[i], h-1))
                 /\ (h = 0 => \A i \in 1..Len(e.node) : e.node[i].r = rects[e.node[i].item + 1])
Covering == root = <<>> \/ Covered(root[1], height)
CapOK(e, h) == Len(e.node) >= 1 /\ Len(e.node) <= MaxEntries /\ (h > 0 => \A i \in 1..Len(e.node) : CapOK(e.node[i], h-1))
NodeCap == root = <<>> \/ CapOK(root[1], height)
Queries == {<<x0,y0,x1,y1>> : x0 \in {-1, 2, 4}, y0 \in {0, 4}, x1 \in {4, 9}, y1 \in {3, 8}}
           \cup {<<c,d,c,d>> : c \in {0, 2, 4, 8}, d \in {0, 3, 4, 8}}
           \cup {<<-1, c, 9, c>> : c \in {0, 1, 2, 4, 7, 8}} \cup {<<c, -1, c, 9>> : c \in {0, 2, 4, 8}}
SearchExact == \A q \in Queries : LET h == TSearch(root, height, q) IN
                 /\ {h[i] : i \in DOMAIN h} = {i \in 0..(Len(rects)-1) : RectMeets(rects[i+1], q)}
                 /\ Len(h) = Cardinality({h[i] : i \in DOMAIN h})
CompressExact == \A q \in Queries : TSearchC(root, height, rects, q) = TSearch(root, height, q)
=============================================================================
