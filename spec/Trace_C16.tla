------------------------------ MODULE Trace_C16 ------------------------------
(***************************************************************************)
(* C16 conformance.  "call" events come from the deterministic sweep: the  *)
(* deep digest of everything reachable from the receiver, the argument and  *)
(* the package variables is unchanged by the call (Session!Immutable) and   *)
(* the call repeated returns the same value.  "solo" / "conc" events come   *)
(* from the race-detector stress run: every reply of a goroutine equals the *)
(* reply the same call gave when it ran alone (Deterministic); "race"       *)
(* events (a data race reported by the Go race detector) are accepted by    *)
(* no action of the specification.                                          *)
(***************************************************************************)
EXTENDS TraceBase
SoloReply(k) == Trace[k + 1].reply                \* the stress trace starts with the K solo events, in order
Good(e) == CASE e.op = "call" -> e.unchanged /\ e.repeatable
             [] e.op = "solo" -> TRUE
             [] e.op = "conc" -> e.reply = SoloReply(e.k) /\ e.same
             [] e.op = "race" -> FALSE
Judge == pos > 0 =>
   LET e == Trace[pos] IN IF Good(e) THEN TRUE ELSE PrintT(ToString(<<"MISMATCH", pos, e.op, "n/a", "immutability">>))
=============================================================================
