------------------------------- MODULE Gen_C11 -------------------------------
(***************************************************************************)
(* Generator for C11: position sequences over an alphabet that straddles   *)
(* the validity limits (so every order of extremes, extremes at first /    *)
(* last / closing position and every in/out-of-range combination occurs)   *)
(* are turned into a fixed family of object trees of every kind (single-    *)
(* child collections, empties mixed with non-empties, nested collections,   *)
(* features).  For each tree the L1 observables are printed; ObjectsImpl    *)
(* (what the code does) is compared with L1 and deviations are printed as   *)
(* DEV lines (they must equal the known-findings list).                     *)
(***************************************************************************)
EXTENDS ObjectsImpl, TLC
CONSTANTS KFull, KSub
VARIABLES seq
XsFull == {-181, -180, 7, 180, 181}
YsFull == {-91, -90, 3, 90, 91}
XsSub == {-180, 7, 181}
YsSub == {-91, 3, 90}
Full == XsFull \X YsFull
Sub == XsSub \X YsSub
Init == seq = <<>>
Next == \/ Len(seq) < KFull /\ \E p \in Full : seq' = Append(seq, p)
        \/ Len(seq) >= KFull /\ Len(seq) < KSub /\ (\A i \in 1..Len(seq) : seq[i] \in Sub)
           /\ \E p \in Sub : seq' = Append(seq, p)
Spec == Init /\ [][Next]_seq
B2I(x) == IF x THEN 1 ELSE 0

Ring(s) == Append(s, s[1])
BoxRing(s) == LET b == BBoxS(s) IN <<<<b[1],b[2]>>, <<b[3],b[2]>>, <<b[3],b[4]>>, <<b[1],b[4]>>, <<b[1],b[2]>>>>
Family(s) ==
  LET n == Len(s)
      k == (n + 1) \div 2
      pre == SubSeq(s, 1, k)
      suf == SubSeq(s, k+1, n)
  IN << <<"Point", s[1]>>, <<"SimplePoint", s[n]>>,
        <<"MultiPoint", s>>,
        <<"LineString", s>>,
        <<"Polygon", <<Ring(s)>> >>,
        <<"Polygon", <<s>> >>,
        <<"Polygon", <<BoxRing(s), Ring(s)>> >>,
        <<"Rect", <<BBoxS(s)[1], BBoxS(s)[2]>>, <<BBoxS(s)[3], BBoxS(s)[4]>> >>,
        <<"MultiLineString", <<pre, suf>> >>,
        <<"MultiLineString", <<suf, pre, s>> >>,
        <<"MultiPolygon", << <<Ring(pre)>>, <<Ring(s)>> >> >>,
        <<"MultiPolygon", << <<s>> >> >>,
        <<"GeometryCollection", << <<"LineString", s>> >> >>,
        <<"GeometryCollection", << <<"LineString", suf>>, <<"Point", s[1]>>, <<"GeometryCollection", <<>> >>, <<"MultiPoint", <<>> >>, <<"LineString", pre>> >> >>,
        <<"FeatureCollection", << <<"Feature", <<"LineString", pre>> >>, <<"Feature", <<"Polygon", <<Ring(s)>> >> >>, <<"Feature", <<"Point", s[n]>> >> >> >>,
        <<"Feature", <<"GeometryCollection", << <<"MultiPoint", suf>>, <<"Polygon", <<Ring(pre)>> >> >> >> >>,
        <<"GeometryCollection", <<>> >>
     >>
Row(o) == <<"C11", o, B2I(EmptyObj(o)),
            IF EmptyObj(o) THEN <<>> ELSE RectObj(o),
            IF EmptyObj(o) THEN <<>> ELSE Center2Obj(o),
            B2I(ValidObj(o)), NumPointsObj(o)>>
\* non-finite ordinates (NaN from a null ordinate or from the constructors, +Inf, -Inf) are in no range: sequences of
\* length <= 2 with one ordinate replaced by a sentinel (1000001 NaN, 1000002 +Inf, 1000003 -Inf; all three read as
\* "greater than every limit" here, which is the right verdict for Valid). Only Empty / Valid / NumPoints are stated.
NonFinite == {1000001, 1000002, 1000003}
Subst(s, i, c, v) == [s EXCEPT ![i] = IF c = 1 THEN <<v, s[i][2]>> ELSE <<s[i][1], v>>]
RowV(o) == <<"C11V", o, B2I(EmptyObj(o)), B2I(ValidObj(o)), NumPointsObj(o)>>
EmitV == Len(seq) \in 1..2 /\ (\A i \in 1..Len(seq) : seq[i][1] \in {7, 181} /\ seq[i][2] \in {3, -91}) =>
            \A i \in 1..Len(seq) : \A c \in 1..2 : \A v \in NonFinite :
               LET f == Family(Subst(seq, i, c, v)) IN \A j \in 1..Len(f) : f[j][1] = "Rect" \/ PrintT(ToString(RowV(f[j])))
Emit == Len(seq) >= 1 => /\ \A i \in 1..Len(Family(seq)) : PrintT(ToString(Row(Family(seq)[i])))
                         /\ EmitV
\* refinement check: where does the transcription of the code deviate from L1?
T4obj == Len(seq) >= 1 => \A i \in 1..Len(Family(seq)) : LET o == Family(seq)[i] IN
           /\ EmptyL2o(o) = EmptyObj(o)
           /\ (~EmptyObj(o) => RectL2o(o) = RectObj(o))
           /\ (ValidL2o(o) = ValidObj(o) \/ PrintT(ToString(<<"DEV", "valid", ValidSiteL2o(o), o>>)))
=============================================================================
