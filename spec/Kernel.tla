-------------------------------- MODULE Kernel --------------------------------
(***************************************************************************)
(* L1 -- what the segment-level observables MEAN.  Exact for arbitrary     *)
(* integer coordinates.  Points are <<x,y>>, segments are given by their   *)
(* two endpoints.  Nothing here looks at the implementation.               *)
(***************************************************************************)
EXTENDS Integers, Sequences, FiniteSets

X(p) == p[1]
Y(p) == p[2]
Min(a,b) == IF a < b THEN a ELSE b
Max(a,b) == IF a > b THEN a ELSE b
Abs(a) == IF a < 0 THEN -a ELSE a
Sgn(n) == IF n > 0 THEN 1 ELSE IF n < 0 THEN -1 ELSE 0

\* twice the signed area of triangle o,a,b  ( > 0 : b is to the left of o->a )
Cross(o,a,b) == (X(a)-X(o))*(Y(b)-Y(o)) - (Y(a)-Y(o))*(X(b)-X(o))

InBox(p,a,b) == /\ Min(X(a),X(b)) <= X(p) /\ X(p) <= Max(X(a),X(b))
                /\ Min(Y(a),Y(b)) <= Y(p) /\ Y(p) <= Max(Y(a),Y(b))

\* p lies on the closed segment a-b (a = b allowed)
OnSeg(p,a,b) == Cross(a,b,p) = 0 /\ InBox(p,a,b)

\* p lies on the infinite line through a and b (every p when a = b)
Collinear(a,b,p) == Cross(a,b,p) = 0

\* the rightward horizontal ray from p crosses segment a-b under the half-open
\* rule: an endpoint level with p counts as below p
RayCross(p,a,b) ==
   LET lo == IF Y(a) < Y(b) THEN a ELSE b
       hi == IF Y(a) < Y(b) THEN b ELSE a
   IN /\ Y(a) # Y(b)
      /\ Y(lo) <= Y(p) /\ Y(p) < Y(hi)
      /\ Cross(lo,hi,p) > 0          \* p strictly left of the upward edge

\* result of a ray cast: "on" wins over "in"
RaycastSem(a,b,p) == IF OnSeg(p,a,b) THEN "on" ELSE IF RayCross(p,a,b) THEN "in" ELSE "out"

\* closed segments a-b and c-d share at least one point (symmetric by construction)
SegInter(a,b,c,d) ==
   LET d1 == Sgn(Cross(a,b,c)) d2 == Sgn(Cross(a,b,d))
       d3 == Sgn(Cross(c,d,a)) d4 == Sgn(Cross(c,d,b))
   IN \/ (d1*d2 < 0 /\ d3*d4 < 0)
      \/ OnSeg(c,a,b) \/ OnSeg(d,a,b) \/ OnSeg(a,c,d) \/ OnSeg(b,c,d)

\* every point of c-d lies on a-b  (segments are convex: both endpoints suffice)
SegContains(a,b,c,d) == OnSeg(c,a,b) /\ OnSeg(d,a,b)

\* the two segments cross at a single point interior to both
Proper(a,b,c,d) ==
   LET d1 == Sgn(Cross(a,b,c)) d2 == Sgn(Cross(a,b,d))
       d3 == Sgn(Cross(c,d,a)) d4 == Sgn(Cross(c,d,b))
   IN d1*d2 < 0 /\ d3*d4 < 0

\* bounding box of a segment as <<minx,miny,maxx,maxy>>
SegRect(a,b) == <<Min(X(a),X(b)), Min(Y(a),Y(b)), Max(X(a),X(b)), Max(Y(a),Y(b))>>

\* closed rectangles <<minx,miny,maxx,maxy>>
RectMeets(r,q) == ~(r[2] > q[4] \/ r[4] < q[2] \/ r[1] > q[3] \/ r[3] < q[1])
RectInside(r,q) == r[1] >= q[1] /\ r[3] <= q[3] /\ r[2] >= q[2] /\ r[4] <= q[4]
PtInRect(p,r) == X(p) >= r[1] /\ X(p) <= r[3] /\ Y(p) >= r[2] /\ Y(p) <= r[4]
=============================================================================
