------------------------------ MODULE ObjectsImpl ------------------------------
(***************************************************************************)
(* L2 -- how the code derives Rect / Empty / Valid / NumPoints              *)
(* (geometry/series.go processPoints, poly.go, collection.go               *)
(* parseInitRectIndex, multilinestring.go, multipolygon.go).                *)
(***************************************************************************)
EXTENDS Objects, SeriesImpl

RECURSIVE EmptyL2o(_), RectL2o(_), ValidL2o(_), ValidSiteL2o(_)
EmptyL2o(o) ==
   CASE OKind(o) \in {"Point", "SimplePoint", "Rect"} -> FALSE
     [] OKind(o) = "LineString" -> EmptyL2(o[2], FALSE)
     [] OKind(o) = "Polygon" -> Len(o[2]) = 0 \/ EmptyL2(o[2][1], TRUE)          \* poly.go:29-34 (nil exterior when no ring)
     [] OKind(o) = "Feature" -> EmptyL2o(o[2])
     [] OTHER -> \A i \in 1..Len(Children(o)) : EmptyL2o(Children(o)[i])          \* collection.go:267-276 pempty
Union4(a, b) == <<Min(a[1],b[1]), Min(a[2],b[2]), Max(a[3],b[3]), Max(a[4],b[4])>> \* object.go:300-314
RectL2o(o) ==
   CASE OKind(o) \in {"Point", "SimplePoint"} -> <<X(o[2]), Y(o[2]), X(o[2]), Y(o[2])>>
     [] OKind(o) = "Rect" -> <<X(o[2]), Y(o[2]), X(o[3]), Y(o[3])>>
     [] OKind(o) = "LineString" -> PP(o[2], FALSE).rect
     [] OKind(o) = "Polygon" -> IF Len(o[2]) = 0 THEN <<0,0,0,0>> ELSE PP(o[2][1], TRUE).rect   \* exterior only (poly.go:48-53)
     [] OKind(o) = "Feature" -> RectL2o(o[2])
     [] OTHER ->                                                                    \* collection.go:267-287
        LET ch == Children(o)
            RECURSIVE Go(_,_,_)
            Go(i, count, acc) == IF i > Len(ch) THEN acc
                                 ELSE IF EmptyL2o(ch[i]) THEN Go(i+1, count, acc)
                                 ELSE Go(i+1, count+1, IF count = 0 \/ Len(ch) = 1 THEN RectL2o(ch[i]) ELSE Union4(acc, RectL2o(ch[i])))
        IN Go(1, 0, <<0,0,0,0>>)
RectValid4(r) == ValidPos(<<r[1], r[2]>>) /\ ValidPos(<<r[3], r[4]>>)
ValidL2o(o) ==
   CASE OKind(o) \in {"Point", "SimplePoint"} -> ValidPos(o[2])
     [] OKind(o) = "Rect" -> ValidPos(o[2]) /\ ValidPos(o[3])
     [] OKind(o) = "LineString" -> \A i \in 1..Len(o[2]) : ValidPos(o[2][i])
     [] OKind(o) = "Polygon" -> \A i \in 1..Len(Flatten(o[2])) : ValidPos(Flatten(o[2])[i])
     [] OKind(o) = "Feature" -> ValidL2o(o[2])
     [] OTHER -> \A i \in 1..Len(Children(o)) : ValidL2o(Children(o)[i])           \* collection.go:64-71 (after the fix commit), multilinestring.go:43, multipolygon.go:42
ValidSiteL2o(o) == IF IsColl(o) THEN "collection.go:65" ELSE IF OKind(o) = "Feature" THEN ValidSiteL2o(o[2]) ELSE "leaf.Valid"
=============================================================================
