------------------------------ MODULE Gen_Shapes ------------------------------
(***************************************************************************)
(* Phase 1 of the C02/C03/C12 universe: enumerates the valid octilinear     *)
(* shapes on the (0..N)^2 lattice (Mode = "pt" | "rect" | "line" | "ring" | *)
(* "holed") and prints each with its witness mask (PlanarPairs!Mask).       *)
(***************************************************************************)
EXTENDS PlanarPairs, TLC
CONSTANTS K, Mode
VARIABLES seq, done
vars == <<seq, done>>
Pts == (0..N) \X (0..N)
Lt(p, q) == X(p) < X(q) \/ (X(p) = X(q) /\ Y(p) < Y(q))
B2I(x) == IF x THEN 1 ELSE 0
MaskBits(s) == LET m == Mask(s) IN [k \in 1..NW |-> B2I(k \in m)]

Init == seq = <<>> /\ done = FALSE
\* every mode builds a point sequence; `done` marks a finished shape
Step ==
   /\ ~done
   /\ \/ /\ Mode = "pt" /\ \E p \in Pts : seq' = <<p>> /\ done' = TRUE
      \/ /\ Mode = "rect" /\ Len(seq) < 2
         /\ \E p \in Pts : /\ (Len(seq) = 1 => X(seq[1]) <= X(p) /\ Y(seq[1]) <= Y(p))
                           /\ seq' = Append(seq, p) /\ done' = (Len(seq) = 1)
      \/ /\ Mode = "line" /\ Len(seq) < K
         /\ \E p \in Pts : /\ (Len(seq) > 0 => Octi(seq[Len(seq)], p))
                           /\ seq' = Append(seq, p) /\ done' = FALSE
      \/ /\ Mode = "line" /\ Len(seq) >= 2 /\ seq' = seq /\ done' = TRUE
      \/ /\ Mode \in {"ring", "holed", "holed2"} /\ Len(seq) < K
         /\ \E p \in Pts : /\ (Len(seq) > 0 => Lt(seq[1], p) /\ Octi(seq[Len(seq)], p) /\ p # seq[Len(seq)])
                           /\ seq' = Append(seq, p) /\ done' = FALSE
      \/ /\ Mode \in {"ring", "holed", "holed2"} /\ Len(seq) >= 3 /\ SimpleOpen(seq) /\ Lt(seq[2], seq[Len(seq)])
         /\ seq' = Append(seq, seq[1]) /\ done' = TRUE
Spec == Init /\ [][Step]_vars

Square == <<<<0,0>>, <<N,0>>, <<N,N>>, <<0,N>>, <<0,0>>>>
Tri == <<<<0,0>>, <<N,0>>, <<0,N>>, <<0,0>>>>
\* a hole must lie in the closed exterior region (touching its boundary is allowed)
HoleIn(h, ext) == LET m == Mask(<<"poly", h, <<>>>>) me == Mask(<<"poly", ext, <<>>>>) IN m \subseteq me
\* a second, fixed hole for the two-hole stratum; the enumerated hole must not overlap it (common boundary points are fine)
Hole2 == <<<<2,2>>, <<3,2>>, <<3,3>>, <<2,3>>, <<2,2>>>>
Disjoint2(h) == LET m == Mask(<<"poly", h, <<>>>>) m2 == Mask(<<"poly", Hole2, <<>>>>)
                    \* interiors disjoint: no witness strictly inside both
                    in1 == {k \in m : InRingOpen(Wit(k), Scale4Pts(h))}
                    in2 == {k \in m2 : InRingOpen(Wit(k), Scale4Pts(Hole2))}
                IN in1 \cap in2 = {} /\ h # Hole2
Shapes ==
   IF ~done THEN <<>>
   ELSE CASE Mode = "pt" -> << <<"pt", seq[1]>> >>
          [] Mode = "rect" -> << <<"rect", seq[1], seq[2]>> >>
          [] Mode = "line" -> << <<"line", seq>> >>
          [] Mode = "ring" -> << <<"poly", seq, <<>>>> >>
          [] Mode = "holed2" -> (IF HoleIn(seq, Square) /\ Disjoint2(seq)
                                 THEN << <<"poly", Square, <<seq, Hole2>>>>, <<"poly", Square, <<Hole2, seq>>>> >> ELSE <<>>)
          [] Mode = "holed" -> (IF HoleIn(seq, Square) THEN << <<"poly", Square, <<seq>>>> >> ELSE <<>>)
                               \o (IF HoleIn(seq, Tri) THEN << <<"poly", Tri, <<seq>>>> >> ELSE <<>>)
Emit == \A i \in 1..Len(Shapes) : PrintT(ToString(<<"SHAPE", Shapes[i], MaskBits(Shapes[i])>>))
=============================================================================
