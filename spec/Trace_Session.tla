---------------------------- MODULE Trace_Session ----------------------------
(***************************************************************************)
(* Trace specification of the session machine.  A trace is a sequence of    *)
(* ACTIONS with their arguments (one JSON array per line; ["Reset"] starts a *)
(* new session): the behaviours tlc -simulate chose from Session!GenSpec, or *)
(* sessions a driver made up.  Every event is consumed by the action of      *)
(* Session it names (never by a copy of it) - so the trace is accepted only  *)
(* if it is a behaviour of the machine (an action that is not enabled, e.g.  *)
(* a Collect over a missing key or a term beyond the bounds, stops the run   *)
(* and the check is INCONCLUSIVE) - and Emit prints, for every step, what    *)
(* the real library must show after it: the whole projected store, the       *)
(* facts, the replies of every pair and every child search.                  *)
(***************************************************************************)
EXTENDS Session
Trace == ndJsonDeserialize(IOEnv.TRACE)
VARIABLE l
IsEvent(name) == l <= Len(Trace) /\ Trace[l][1] = name /\ l' = l + 1
A == Trace[l]
TReset == IsEvent("Reset") /\ store' = [k \in Keys |-> None] /\ org' = [k \in Keys |-> "none"] /\ last' = <<"Reset">> /\ n' = 0
TNext == \/ TReset
         \/ IsEvent("SetLeaf") /\ A[3] \in LeafSet /\ SetLeaf(A[2], A[3])
         \/ IsEvent("SetBig") /\ A[3] \in 1..Len(BigCat) /\ SetBig(A[2], A[3])
         \/ IsEvent("SetEmpty") /\ A[3] \in EmptyKinds /\ SetEmpty(A[2], A[3])
         \/ IsEvent("Wrap") /\ A[4] \in Members /\ Wrap(A[2], A[3], A[4])
         \/ IsEvent("Collect") /\ Collect(A[2], A[3], A[4])
         \/ IsEvent("Reparse") /\ A[4] \in 1..Len(OptSets) /\ Reparse(A[2], A[3], A[4])
         \/ IsEvent("Del") /\ Del(A[2])
TSpec == Init /\ l = 1 /\ [][TNext]_<<vars, l>>
\* every event consumed: the last state has l = Len(Trace) + 1
Consumed == TLCGet("stats").diameter = Len(Trace) + 1
=============================================================================
