------------------------------ MODULE Trace_C05 ------------------------------
(***************************************************************************)
(* C05: the specification of the method sweep is that every call returns   *)
(* normally (out = "ok") and that Parse returns an object xor an error.    *)
(* For a call that ran away inside Line.ContainsLine the loop hook reports  *)
(* the operands; the L2 walk (PlanarImpl!LineWalk) is evaluated on them so  *)
(* that the verdict can tell the known non-termination of the pinned walk   *)
(* (model also revisits a state) from a new one.  DRIFT lines report        *)
(* terminating calls whose answer differs from the model of the walk.       *)
(***************************************************************************)
EXTENDS PlanarImpl, TraceBase
HasOps(e) == "line" \in DOMAIN e /\ "other" \in DOMAIN e
Good(e) == e.out = "ok" /\ (e.op = "parse" => e.obj # e.err)
PredOut(e) == IF HasOps(e) THEN (IF LineWalk(e.line, e.other) = "runaway" THEN "runaway" ELSE "ok") ELSE "ok"
Drift(e) == e.op = "walk" /\ e.out = "ok" /\ LineWalk(e.line, e.other) # (IF e.got = 1 THEN "true" ELSE "false")
Judge == pos > 0 =>
   LET e == Trace[pos] IN
   IF Good(e) THEN (~Drift(e) \/ PrintT(ToString(<<"DRIFT", pos, LineWalk(e.line, e.other)>>)))
   ELSE PrintT(ToString(<<"MISMATCH", pos, "ok", PredOut(e), IF HasOps(e) THEN "line.go:69-109" ELSE "n/a">>))
=============================================================================
