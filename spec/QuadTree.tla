-------------------------------- MODULE QuadTree --------------------------------
(***************************************************************************)
(* L2 index machine: geometry/qtree.go as a transition system.             *)
(* State: the quadtree (function from paths to nodes) and the list of      *)
(* inserted item rectangles (item i, 0-based as in the code, = rects[i+1]). *)
(* One action per qNode.insert call made by buildIndex (the split is        *)
(* performed inline, as the code does).  Operators Search (hits in callback *)
(* order) and the compressed form (qNode.compress / qCompressSearch) with   *)
(* the variable-width item encoding of numBytes/appendNum/readNum, where    *)
(* the byte radix 256 is the constant B (small in the model so that 1-, 2-  *)
(* and 4-"byte" widths all occur).                                          *)
(* Rectangles are <<minx,miny,maxx,maxy>>.  The root bounds are <<0,0,W,W>>, *)
(* W a power of two, so that all midlines down to MaxDepth are integral.    *)
(***************************************************************************)
EXTENDS Kernel, TLC
CONSTANTS MaxItems,    \* qMaxItems (32 in the code)
          MaxDepth,    \* qMaxDepth (16 in the code)
          W, Alphabet, MaxN, B
Mid(a,b) == (a + b) \div 2
ChooseQuad(b, r) ==                                          \* qtree.go:57-80
  LET mx == Mid(b[1],b[3])  my == Mid(b[2],b[4]) IN
  IF r[3] < mx THEN (IF r[4] < my THEN 2 ELSE IF r[2] < my THEN -1 ELSE 0)
  ELSE IF r[1] < mx THEN -1
  ELSE IF r[4] < my THEN 3
  ELSE IF r[2] < my THEN -1 ELSE 1
QuadBounds(b, q) ==                                          \* qtree.go:82-107
  LET mx == Mid(b[1],b[3])  my == Mid(b[2],b[4]) IN
  CASE q = 0 -> <<b[1], my, mx, b[4]>>
    [] q = 1 -> <<mx, my, b[3], b[4]>>
    [] q = 2 -> <<b[1], b[2], mx, my>>
    [] q = 3 -> <<mx, b[2], b[3], my>>
Root == <<0, 0, W, W>>
RECURSIVE BoundsIn(_,_)
\* bounds of the node at `path` below root bounds rb (the code passes the bounds down the recursion)
BoundsIn(rb, path) == IF path = <<>> THEN rb ELSE QuadBounds(BoundsIn(rb, SubSeq(path,1,Len(path)-1)), path[Len(path)])
BoundsOf(path) == BoundsIn(Root, path)

VARIABLES tree, rects
qvars == <<tree, rects>>
RectOfItem(rs, it) == rs[it + 1]
EmptyNode == [items |-> <<>>, split |-> FALSE]
Node(t,p) == IF p \in DOMAIN t THEN t[p] ELSE EmptyNode
Put(t,p,n) == [q \in DOMAIN t \cup {p} |-> IF q = p THEN n ELSE t[q]]
Touch(t,p) == IF p \in DOMAIN t THEN t ELSE Put(t,p,EmptyNode)  \* n.quads[q] = new(qNode)
RECURSIVE InsIn(_,_,_,_,_)
InsIn(rb, t, rs, p, it) ==                                    \* qtree.go:16-55
  LET n == Node(t,p) b == BoundsIn(rb, p) IN
  IF Len(p) = MaxDepth THEN Put(t,p,[n EXCEPT !.items = Append(@,it)])
  ELSE IF n.split THEN
     LET q == ChooseQuad(b, RectOfItem(rs,it)) IN
     IF q = -1 THEN Put(t,p,[n EXCEPT !.items = Append(@,it)])
     ELSE InsIn(rb, Touch(t,Append(p,q)), rs, Append(p,q), it)
  ELSE IF Len(n.items) = MaxItems THEN
     LET RECURSIVE Redis(_,_,_)
         Redis(tt, k, keep) ==
            IF k > Len(n.items) THEN Put(tt,p,[items |-> keep, split |-> TRUE])
            ELSE LET ii == n.items[k] q == ChooseQuad(b, RectOfItem(rs,ii)) IN
                 IF q = -1 THEN Redis(tt,k+1,Append(keep,ii))
                 ELSE Redis(InsIn(rb, Touch(tt,Append(p,q)), rs, Append(p,q), ii), k+1, keep)
     IN InsIn(rb, Redis(t,1,<<>>), rs, p, it)
  ELSE Put(t,p,[n EXCEPT !.items = Append(@,it)])

Ins(t, rs, p, it) == InsIn(Root, t, rs, p, it)
RECURSIVE SearchIn(_,_,_,_,_)
SearchIn(rb, t, rs, p, q) ==                                  \* qtree.go:109-136, hits in callback order
  LET n == Node(t,p) b == BoundsIn(rb, p)
      here == SelectSeq(n.items, LAMBDA i : RectMeets(RectOfItem(rs,i), q))
      RECURSIVE Kids(_)
      Kids(k) == IF k > 3 THEN <<>> ELSE
                 (IF n.split /\ Append(p,k) \in DOMAIN t /\ RectMeets(QuadBounds(b,k), q)
                  THEN SearchIn(rb,t,rs,Append(p,k),q) ELSE <<>>) \o Kids(k+1)
  IN here \o Kids(0)
Search(t, rs, p, q) == SearchIn(Root, t, rs, p, q)

\* ---- variable-width item encoding (qtree.go:137-172), radix B instead of 256
NumBytes(n) == IF n <= B - 1 THEN 1 ELSE IF n <= B*B - 1 THEN 2 ELSE 4
Pow(k) == IF k = 1 THEN B ELSE IF k = 2 THEN B*B ELSE B*B*B*B
MaxOf(s, init) == LET RECURSIVE F(_,_) F(i,m) == IF i > Len(s) THEN m ELSE F(i+1, IF s[i] > m THEN s[i] ELSE m) IN F(1, init)
\* what qNode.compress stores for a node and qCompressSearch reads back
Stored(n) == LET ib == MaxOf([i \in 1..Len(n.items) |-> NumBytes(n.items[i])], NumBytes(Len(n.items)))   \* qtree.go:174-180
             IN [ib |-> ib, count |-> Len(n.items) % Pow(ib), items |-> [i \in 1..Len(n.items) |-> n.items[i] % Pow(ib)]]
RECURSIVE SearchCIn(_,_,_,_,_)
SearchCIn(rb, t, rs, p, q) ==                                 \* qtree.go:215-257
  LET n == Node(t,p) b == BoundsIn(rb, p) st == Stored(n)
      its == SubSeq(st.items, 1, st.count)
      here == SelectSeq(its, LAMBDA i : RectMeets(RectOfItem(rs,i), q))
      RECURSIVE Kids(_)
      Kids(k) == IF k > 3 THEN <<>> ELSE
                 (IF n.split /\ Append(p,k) \in DOMAIN t /\ RectMeets(QuadBounds(b,k), q)
                  THEN SearchCIn(rb,t,rs,Append(p,k),q) ELSE <<>>) \o Kids(k+1)
  IN here \o Kids(0)
SearchC(t, rs, p, q) == SearchCIn(Root, t, rs, p, q)

QInit == tree = [p \in {<<>>} |-> EmptyNode] /\ rects = <<>>
Insert == /\ Len(rects) < MaxN
          /\ \E rc \in Alphabet : LET rs == Append(rects, rc) IN rects' = rs /\ tree' = Ins(tree, rs, <<>>, Len(rs) - 1)
QNext == Insert
QSpec == QInit /\ [][QNext]_qvars

\* ---- invariants (theorem T5)
ItemsOf(p) == {tree[p].items[k] : k \in DOMAIN tree[p].items}
AllItems == UNION {ItemsOf(p) : p \in DOMAIN tree}
Count == LET RECURSIVE S(_) S(ps) == IF ps = {} THEN 0 ELSE LET p == CHOOSE p \in ps : TRUE IN Len(tree[p].items) + S(ps \ {p}) IN S(DOMAIN tree)
EachOnce == AllItems = 0..(Len(rects)-1) /\ Count = Len(rects)
Housed == \A p \in DOMAIN tree : \A it \in ItemsOf(p) : RectInside(RectOfItem(rects,it), BoundsOf(p))
DepthBound == \A p \in DOMAIN tree : Len(p) <= MaxDepth
\* only depth-limit nodes and overflow lists of split nodes may exceed MaxItems
Capacity == \A p \in DOMAIN tree : Len(tree[p].items) <= MaxItems \/ tree[p].split \/ Len(p) = MaxDepth
Queries == {<<x0,y0,x1,y1>> : x0 \in {-1, 2, W \div 2}, y0 \in {0, W \div 2}, x1 \in {W \div 2, W+1}, y1 \in {W \div 2 - 1, W}}
           \cup {<<c,d,c,d>> : c \in {0, W \div 4, W \div 2, W}, d \in {0, W \div 2 - 1, W \div 2, W}}
           \cup {<<-1, c, W+1, c>> : c \in {0, 1, W \div 4, W \div 2, W - 1, W}}
           \cup {<<c, -1, c, W+1>> : c \in {0, W \div 4, W \div 2, W}}
SearchExact == \A q \in Queries : LET h == Search(tree, rects, <<>>, q) IN
                 /\ {h[i] : i \in DOMAIN h} = {i \in 0..(Len(rects)-1) : RectMeets(RectOfItem(rects,i), q)}
                 /\ Len(h) = Cardinality({h[i] : i \in DOMAIN h})
CompressExact == \A q \in Queries : SearchC(tree, rects, <<>>, q) = Search(tree, rects, <<>>, q)
=============================================================================
