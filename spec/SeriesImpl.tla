------------------------------ MODULE SeriesImpl ------------------------------
(***************************************************************************)
(* L2 -- geometry/series.go transcribed: processPoints as the fold the code *)
(* performs (loop state: i, dir, concave, cwc, rect), neighbour selection   *)
(* at the seam exactly as coded (after the two fix commits: a repeated     *)
(* closing point is skipped, repetitions of b are skipped when choosing c), NumSegments / SegmentAt / Empty.                         *)
(***************************************************************************)
EXTENDS Series

ZeroPP == [convex |-> FALSE, clockwise |-> FALSE, rect |-> <<0,0,0,0>>]

PP(r, closed) ==                                                   \* series.go:223-298
  IF (closed /\ Len(r) < 3) \/ Len(r) < 2 THEN ZeroPP               \* series.go:228
  ELSE
  LET len == Len(r)
      n == IF closed /\ r[len] = r[1] THEN len - 1 ELSE len       \* series.go:236-239
      \* 1-based i; Go index is i-1
      B(i) == IF i = n THEN r[1] ELSE r[i+1]
      \* series.go:263-281: c starts two ahead (cyclically) and is advanced past repetitions of b
      C0(i) == IF i = n THEN 2 ELSE IF i = n-1 THEN 1 ELSE i+2          \* 1-based start index of c
      RECURSIVE Adv(_,_,_,_)
      Adv(a, b, ci, k) == IF a # b /\ r[ci] = b /\ k < n THEN Adv(a, b, IF ci + 1 > n THEN 1 ELSE ci + 1, k + 1) ELSE ci
      C(i) == r[Adv(r[i], B(i), C0(i), 0)]
      RECURSIVE Go(_,_,_,_,_)
      Go(i, dir, conc, cwc, rect) ==
        IF i > len THEN [convex |-> ~conc, clockwise |-> cwc > 0, rect |-> rect]
        ELSE
        LET p == r[i]
            rect2 == IF i = 1 THEN <<X(p),Y(p),X(p),Y(p)>>
                     ELSE <<IF X(p) < rect[1] THEN X(p) ELSE rect[1],
                            IF Y(p) < rect[2] THEN Y(p) ELSE rect[2],
                            IF ~(X(p) < rect[1]) /\ X(p) > rect[3] THEN X(p) ELSE rect[3],
                            IF ~(Y(p) < rect[2]) /\ Y(p) > rect[4] THEN Y(p) ELSE rect[4]>>
        IN IF i > n THEN Go(i+1, dir, conc, cwc, rect2)             \* series.go:259 continue
           ELSE
           LET a == r[i] b == B(i) c == C(i)
               cwc2 == cwc + (X(b)-X(a))*(Y(b)+Y(a))
               z == (X(b)-X(a))*(Y(c)-Y(b)) - (Y(b)-Y(a))*(X(c)-X(b))
           IN IF conc THEN Go(i+1, dir, conc, cwc2, rect2)
              ELSE IF dir = 0 THEN Go(i+1, IF z < 0 THEN -1 ELSE IF z > 0 THEN 1 ELSE 0, FALSE, cwc2, rect2)
              ELSE IF z < 0 THEN Go(i+1, dir, dir = 1, cwc2, rect2)
              ELSE IF z > 0 THEN Go(i+1, dir, dir = -1, cwc2, rect2)
              ELSE Go(i+1, dir, FALSE, cwc2, rect2)
  IN Go(1, 0, FALSE, 0, <<0,0,0,0>>)

NumSegmentsL2(r, closed) ==                                        \* series.go:196-210
  IF closed THEN (IF Len(r) < 3 THEN 0 ELSE IF r[Len(r)] = r[1] THEN Len(r) - 1 ELSE Len(r))
  ELSE IF Len(r) < 2 THEN 0 ELSE Len(r) - 1
SegmentAtL2(r, i) == <<r[i], IF i = Len(r) THEN r[1] ELSE r[i+1]>>  \* series.go:212-221 (1-based)
EmptyL2(r, closed) == (closed /\ Len(r) < 3) \/ Len(r) < 2          \* series.go:125-131
\* brute-force Search (series.go:171-180): hits in index order
SearchBruteL2(r, closed, q) ==
  SelectSeq([i \in 1..NumSegmentsL2(r, closed) |-> i - 1],
            LAMBDA k : RectMeets(SegRect(SegmentAtL2(r,k+1)[1], SegmentAtL2(r,k+1)[2]), q))
=============================================================================
