-------------------------------- MODULE Session --------------------------------
(***************************************************************************)
(* The session machine: the library as a client such as Tile38 drives it.   *)
(* A session keeps a small store  key -> object  and performs, step by step, *)
(*   SetLeaf / SetEmpty   an object from a public constructor                *)
(*   Wrap                 NewFeature around an object already in the store   *)
(*                        (the real objects share the wrapped pointer)       *)
(*   Collect              NewGeometryCollection / NewFeatureCollection /     *)
(*                        NewMulti* over objects already in the store        *)
(*   Reparse              Parse(JSON(store[j]), options) - what a server     *)
(*                        does when it persists and reloads an object        *)
(*   Del                  forget a key                                       *)
(*   Query / Search       the predicates between two stored objects, the     *)
(*                        child search of a stored collection                *)
(* The state is ABSTRACT: a term over the lattice leaves of ObjectsPred      *)
(* plus, for every leaf, its REPRESENTATION (the concrete Go type the        *)
(* library is specified to use for it: Point / SimplePoint, Polygon / Rect).  *)
(* Nothing here looks at the implementation; the meaning of every stored     *)
(* object is that of ObjectsPred (L1).  What each action does to the         *)
(* representation transcribes the documentation of ParseOptions and of the   *)
(* constructors:                                                             *)
(*   - JSON() of a Rect is its five-point polygon (min, (max.x,min.y), max,   *)
(*     (min.x,max.y), min); JSON() of a SimplePoint is a Point;               *)
(*   - Parse gives *Point unless AllowSimplePoints, *Polygon unless           *)
(*     AllowRects and the ring is exactly that five-point rectangle (strict   *)
(*     extents); the positions of a MultiPoint / MultiPolygon are always      *)
(*     Points / Polygons;                                                     *)
(*   - Parse rejects a text whose line has fewer than two or whose ring has   *)
(*     fewer than four positions, at any depth (C07): a Reparse of an object  *)
(*     holding such a part is REJECTED and leaves the store unchanged.        *)
(* TLC (a) model-checks the machine exhaustively for small bounds            *)
(* (MC_Session: meaning is preserved by Reparse, laws hold between any two   *)
(* stored objects however they were composed) and (b) writes behaviours      *)
(* (tlc -simulate) that the Go harness steps through the real library,       *)
(* comparing the WHOLE projected store, the facts (Empty, Rect, NumPoints)   *)
(* and the replies after every step.                                         *)
(***************************************************************************)
EXTENDS ObjectsPred
CONSTANTS Keys,        \* the store's keys, 1..K
          LeafSet,     \* the leaves SetLeaf may use (all of them in the generator, a discriminating few in the exhaustive run)
          MaxParts,    \* bound on the number of leaves of a stored term
          MaxNest      \* bound on the nesting depth of a stored term
O == INSTANCE Objects

None == <<"none">>
\* option sets of Reparse: <<AllowSimplePoints, AllowRects, IndexChildren, geometry index kind, IndexGeometry>>
OptSets == << <<FALSE, FALSE, 64, "QuadTree", 64>>, <<TRUE, FALSE, 0, "None", 0>>, <<FALSE, TRUE, 1, "RTree", 1>>,
              <<TRUE, TRUE, 2, "QuadTree", 1>>, <<FALSE, FALSE, 1, "RTree", 64>>, <<TRUE, TRUE, 0, "RTree", 4>> >>
EmptyKinds == {"LineString0", "LineString1", "PolygonNil", "Polygon2"}
\* leaf terms carry their representation as third component (ObjectsPred reads o[1], o[2] only)
Lr(i, rep) == <<"leaf", i, rep>>
ShapeKind(i) == Lf[i].s[1]                   \* "pt" "line" "rect" "poly"
CtorRep(i) == Lf[i].k                        \* the kind the leaf table builds it as

\* a polygon ring that AllowRects turns into a Rect
RectRing(r) == /\ Len(r) = 5
               /\ r[1][1] < r[2][1] /\ r[1][2] = r[2][2] /\ r[2][1] = r[3][1] /\ r[2][2] < r[3][2]
               /\ r[3][1] > r[4][1] /\ r[3][2] = r[4][2] /\ r[4][1] = r[5][1] /\ r[4][2] > r[5][2]
               /\ r[5] = r[1]
RectShaped(i) == \/ ShapeKind(i) = "rect" /\ Lf[i].s[2][1] < Lf[i].s[3][1] /\ Lf[i].s[2][2] < Lf[i].s[3][2]
                 \/ ShapeKind(i) = "poly" /\ Lf[i].s[3] = <<>> /\ RectRing(Lf[i].s[2])
ParsedRep(i, opt) == CASE ShapeKind(i) = "pt" -> IF opt[1] THEN "SimplePoint" ELSE "Point"
                       [] ShapeKind(i) = "line" -> "LineString"
                       [] OTHER -> IF opt[2] /\ RectShaped(i) THEN "Rect" ELSE "Polygon"
\* the representation a leaf has as a position of a Multi* object
MultiRep(i) == CASE ShapeKind(i) = "pt" -> "Point" [] ShapeKind(i) = "line" -> "LineString" [] OTHER -> "Polygon"

\* a catalogue of collections with more children than the default child-index threshold (64): the child R-tree exists
\* only from that size on.  They count as ONE part for the bounds, so they can be wrapped, collected and reloaded too.
PtLeaves == SelectSeq([i \in 1..NLf |-> i], LAMBDA i : ShapeKind(i) = "pt")
BigCat == <<
   <<"coll", "GeometryCollection", [j \in 1..70 |-> Lr(((j * 5) % NLf) + 1, CtorRep(((j * 5) % NLf) + 1))]>>,
   <<"coll", "FeatureCollection", [j \in 1..66 |-> IF j % 9 = 0 THEN <<"feat", <<"emp", "LineString0">>>>
                                                     ELSE <<"feat", Lr(((j * 7) % NLf) + 1, CtorRep(((j * 7) % NLf) + 1))>>]>>,
   <<"coll", "MultiPoint", [j \in 1..65 |-> Lr(PtLeaves[(j % 3) + 1], "Point")]>>,
   <<"coll", "GeometryCollection", [j \in 1..64 |-> Lr(((j * 3) % NLf) + 1, CtorRep(((j * 3) % NLf) + 1))]>>,
   <<"coll", "FeatureCollection", [j \in 1..63 |-> Lr(((j * 11) % NLf) + 1, CtorRep(((j * 11) % NLf) + 1))]>> >>
IsBig(t) == OTag(t) = "coll" /\ Len(t[3]) > 8
RECURSIVE HasEmp(_), Reparsed(_,_), NLeaves(_), Nest(_), MultiKids(_)
HasEmp(t) == CASE OTag(t) = "leaf" -> FALSE
               [] OTag(t) = "emp" -> TRUE
               [] OTag(t) = "feat" -> HasEmp(t[2])
               [] OTag(t) = "coll" -> \E i \in 1..Len(t[3]) : HasEmp(t[3][i])
IsMulti(kind) == kind \in {"MultiPoint", "MultiLineString", "MultiPolygon"}
MultiKids(kids) == [i \in 1..Len(kids) |-> Lr(kids[i][2], MultiRep(kids[i][2]))]
\* what Parse(JSON(t), opt) is (defined when ~HasEmp(t))
Reparsed(t, opt) == CASE OTag(t) = "leaf" -> Lr(t[2], ParsedRep(t[2], opt))
                      [] OTag(t) = "feat" -> <<"feat", Reparsed(t[2], opt)>>
                      [] OTag(t) = "coll" -> IF IsMulti(t[2]) THEN <<"coll", t[2], MultiKids(t[3])>>
                                             ELSE <<"coll", t[2], [i \in 1..Len(t[3]) |-> Reparsed(t[3][i], opt)]>>
NLeaves(t) == CASE OTag(t) \in {"leaf", "emp"} \/ IsBig(t) -> 1
                [] OTag(t) = "feat" -> NLeaves(t[2])
                [] OTag(t) = "coll" -> LET RECURSIVE S(_) S(i) == IF i > Len(t[3]) THEN 0 ELSE NLeaves(t[3][i]) + S(i+1) IN S(1)
Max2(a, b) == IF a > b THEN a ELSE b
Nest(t) == CASE OTag(t) \in {"leaf", "emp"} \/ IsBig(t) -> 0
             [] OTag(t) = "feat" -> 1 + Nest(t[2])
             [] OTag(t) = "coll" -> LET RECURSIVE M(_) M(i) == IF i > Len(t[3]) THEN 0 ELSE Max2(Nest(t[3][i]), M(i+1)) IN 1 + M(1)
Fits(t) == NLeaves(t) <= MaxParts /\ Nest(t) <= MaxNest

\* ---- the tree the real object must project to (Objects.tla tuples, with the concrete kind of every leaf)
Ring5(mn, mx) == <<mn, <<mx[1], mn[2]>>, mx, <<mn[1], mx[2]>>, mn>>
LeafTreeR(i, rep) == LET s == Lf[i].s IN
   CASE ShapeKind(i) = "pt" -> <<rep, s[2]>>
     [] ShapeKind(i) = "line" -> <<"LineString", s[2]>>
     [] ShapeKind(i) = "rect" -> IF rep = "Rect" THEN <<"Rect", s[2], s[3]>> ELSE <<"Polygon", <<Ring5(s[2], s[3])>>>>
     [] ShapeKind(i) = "poly" -> IF rep = "Rect" THEN <<"Rect", s[2][1], s[2][3]>> ELSE <<"Polygon", <<s[2]>> \o s[3]>>
EmpTreeR(kind) == CASE kind = "LineString0" -> <<"LineString", <<>>>>
                    [] kind = "LineString1" -> <<"LineString", <<<<1,1>>>>>>
                    [] kind = "PolygonNil" -> <<"Polygon", <<>>>>
                    [] kind = "Polygon2" -> <<"Polygon", <<<<<<0,0>>, <<1,1>>>>>>>>
RECURSIVE TreeR(_)
TreeR(t) == CASE OTag(t) = "leaf" -> LeafTreeR(t[2], t[3])
              [] OTag(t) = "emp" -> EmpTreeR(t[2])
              [] OTag(t) = "feat" -> <<"Feature", TreeR(t[2])>>
              [] OTag(t) = "coll" -> IF IsMulti(t[2]) THEN <<t[2], [i \in 1..Len(t[3]) |-> TreeR(t[3][i])[2]]>>
                                     ELSE <<t[2], [i \in 1..Len(t[3]) |-> TreeR(t[3][i])]>>
\* the facts of a stored object: <<empty, rect or <<>>, number of points>>
FactsOf(t) == <<IsEmpty(t), IF IsEmpty(t) THEN <<>> ELSE RectOf(t), O!NumPointsObj(TreeR(t))>>

VARIABLES store,   \* [Keys -> term or None]
          org,     \* [Keys -> "ctor" | "parse" | "none"]: how the object came to be (a parsed one has a JSON fixpoint, C06)
          last,    \* the action just taken with its arguments and the replies the library must give (output only)
          n        \* number of steps taken (output only)
vars == <<store, org, last, n>>
Used == {k \in Keys : store[k] # None}
B2I(x) == IF x THEN 1 ELSE 0
Code(a, b, strip) == B2I(Inter(a, b, strip)) + 2 * B2I(Cont(a, b, strip)) + 4 * B2I(Cont(b, a, strip))
Queries == << <<0,0,3,3>>, <<0,0,0,0>>, <<1,1,2,2>>, <<3,0,3,3>>, <<-5,-5,-4,-4>>, <<2,2,2,2>>, <<0,3,3,3>> >>
SetSeq(S) == SelectSeq([i \in 1..80 |-> i], LAMBDA i : i \in S)

Put(k, t, how, act) == /\ Fits(t)
                       /\ store' = [store EXCEPT ![k] = t]
                       /\ org' = [org EXCEPT ![k] = how]
                       /\ last' = act
                       /\ n' = n + 1
SetLeaf(k, i) == Put(k, Lr(i, CtorRep(i)), "ctor", <<"SetLeaf", k, i>>)
SetBig(k, b) == Put(k, BigCat[b], "ctor", <<"SetBig", k, b>>)      \* (generator and trace specification only: not part of Next)
SetEmpty(k, e) == Put(k, <<"emp", e>>, "ctor", <<"SetEmpty", k, e>>)
Wrap(k, j, mem) == store[j] # None /\ Put(k, <<"feat", store[j]>>, "ctor", <<"Wrap", k, j, mem>>)
\* a collection over the objects at keys js (a sequence, repetitions allowed: the same pointer twice)
SameShape(js, sk) == \A x \in 1..Len(js) : OTag(store[js[x]]) = "leaf" /\ ShapeKind(store[js[x]][2]) \in sk
Collect(k, kind, js) ==
   /\ \A x \in 1..Len(js) : store[js[x]] # None
   /\ CASE kind = "MultiPoint" -> SameShape(js, {"pt"})
        [] kind = "MultiLineString" -> SameShape(js, {"line"})
        [] kind = "MultiPolygon" -> SameShape(js, {"poly"})          \* NewMultiPolygon takes *geometry.Poly
        [] OTHER -> TRUE
   /\ LET kids == [x \in 1..Len(js) |-> store[js[x]]] IN
      Put(k, <<"coll", kind, IF IsMulti(kind) THEN MultiKids(kids) ELSE kids>>, "ctor", <<"Collect", k, kind, js>>)
Reparse(k, j, oi) ==
   /\ store[j] # None
   /\ IF HasEmp(store[j])
      THEN /\ UNCHANGED <<store, org>>
           /\ last' = <<"Reparse", k, j, oi, "rejected", FALSE>>
           /\ n' = n + 1
      ELSE Put(k, Reparsed(store[j], OptSets[oi]), "parse", <<"Reparse", k, j, oi, "accepted", org[j] = "parse">>)
Del(k) == /\ store[k] # None
          /\ store' = [store EXCEPT ![k] = None] /\ org' = [org EXCEPT ![k] = "none"]
          /\ last' = <<"Del", k>> /\ n' = n + 1
Query(a, b) == /\ store[a] # None /\ store[b] # None
               /\ UNCHANGED <<store, org>>
               /\ last' = <<"Query", a, b, Code(store[a], store[b], TRUE), Code(store[a], store[b], FALSE)>>
               /\ n' = n + 1
Search(a, q, stop) == /\ store[a] # None /\ IsColl(store[a])
                      /\ UNCHANGED <<store, org>>
                      /\ last' = <<"Search", a, Queries[q], stop, SetSeq(SearchSemC(store[a], Queries[q]))>>
                      /\ n' = n + 1

Init == store = [k \in Keys |-> None] /\ org = [k \in Keys |-> "none"] /\ last = <<"Init">> /\ n = 0
Seqs(S, lo, hi) == UNION {[1..m -> S] : m \in lo..hi}
Members == 0..2          \* index into the member texts of the harness: none, an id and properties, a foreign member
Mutate == \/ \E k \in Keys, i \in LeafSet : SetLeaf(k, i)
          \/ \E k \in Keys, e \in EmptyKinds : SetEmpty(k, e)
          \/ \E k \in Keys, j \in Used, m \in Members : Wrap(k, j, m)
          \/ \E k \in Keys, kind \in {"MultiPoint", "MultiLineString", "MultiPolygon", "GeometryCollection", "FeatureCollection"},
                js \in Seqs(Used, 0, 3) : Collect(k, kind, js)
          \/ \E k \in Keys, j \in Used, oi \in 1..Len(OptSets) : Reparse(k, j, oi)
          \/ \E k \in Used : Del(k)
Next == \/ Mutate
        \/ \E a \in Used, b \in Used : Query(a, b)
        \/ \E a \in Used, q \in 1..Len(Queries), stop \in 0..2 : Search(a, q, stop)
Spec == Init /\ [][Next]_vars

\* ---- what TLC checks on the machine itself
TypeOK == /\ \A k \in Keys : store[k] = None \/ (Fits(store[k]) /\ org[k] \in {"ctor", "parse"})
          /\ \A k \in Keys : (store[k] = None) = (org[k] = "none")
\* the laws of C09 between ANY two stored objects, however they were composed
SessionLaws == \A a \in Used, b \in Used : LET A == store[a] B == store[b] IN
   /\ Inter(A, B, TRUE) = Inter(B, A, TRUE)
   /\ (Cont(A, B, TRUE) /\ ~IsEmpty(B) => Inter(A, B, TRUE) /\ Covers4(RectOf(A), RectOf(B)))
   /\ (Inter(A, B, TRUE) => ~IsEmpty(A) /\ ~IsEmpty(B) /\ Meets4(RectOf(A), RectOf(B)))
   /\ (~IsEmpty(A) /\ a = b => Inter(A, A, TRUE))
\* persisting and reloading never changes what an object means (C06 / C08 at the level of the machine):
\* the reloaded object has the same relations with every stored object, the same facts up to the
\* representation, and reloading it again under the same options changes nothing
ReparseKeepsMeaning == [][\A k \in Keys : (last'[1] = "Reparse" /\ last'[2] = k /\ last'[5] = "accepted") =>
     LET old == store[last'[3]] new == store'[k] IN
     /\ IsEmpty(old) = IsEmpty(new)
     /\ (~IsEmpty(old) => RectOf(old) = RectOf(new))
     /\ \A b \in Used : Code(old, store[b], TRUE) = Code(new, store[b], TRUE)
     /\ Reparsed(new, OptSets[last'[4]]) = new
     /\ ~HasEmp(new)]_vars
\* a wrapped object answers as what it wraps
WrapTransparent == [][\A k \in Keys : (last'[1] = "Wrap" /\ last'[2] = k) =>
     \A b \in Used : Code(store'[k], store[b], TRUE) = Code(store[last'[3]], store[b], TRUE)]_vars

\* the exhaustive run identifies states by the store alone (last and n are output-only)
View == <<store, org>>

\* ---- output for the replay (tlc -simulate over GenSpec): one line per step with the action, the whole projected store
\* (tree with concrete kinds, facts), the replies to Query for every ordered pair of stored objects (L1 and the L2
\* variant that keeps Features whole) and to Search for every stored collection and every query rectangle
\* Sampling policy of the generator.  tlc -simulate picks uniformly among the successor STATES, which would make four of
\* five steps a SetLeaf; Pick thins the parameter choices.  Every step is one of the actions above with particular
\* arguments, and Trace_Session re-validates the chosen behaviour against those actions.
Pick(S) == {RandomElement({x \in S : n >= 0})}      \* (mentions a variable: a constant expression would be evaluated once)
CollKinds == {"MultiPoint", "MultiLineString", "MultiPolygon", "GeometryCollection", "FeatureCollection"}
GenMutate == \/ \E k \in Keys, i \in Pick(LeafSet) : SetLeaf(k, i)
             \/ \E k \in Pick(Keys), e \in Pick(EmptyKinds) : SetEmpty(k, e)
             \/ \E k \in Pick(Keys), b \in Pick(1..Len(BigCat)), dice \in Pick(1..5) : dice = 1 /\ SetBig(k, b)    \* (one step in about forty: they are costly to evaluate)
             \/ \E k \in Keys, j \in Used, m \in Pick(Members) : Wrap(k, j, m)
             \/ \E k \in Pick(Keys), kind \in CollKinds, js \in Seqs(Used, 0, 2) : Collect(k, kind, js)
             \/ Used # {} /\ \E k \in Pick(Keys), kind \in CollKinds, js \in Pick([1..3 -> Used]) : Collect(k, kind, js)
             \/ \E k \in Keys, j \in Used, oi \in Pick(1..Len(OptSets)) : Reparse(k, j, oi)
             \/ Used # {} /\ \E k \in Pick(Used) : Del(k)
GenSpec == Init /\ [][GenMutate]_vars
NK == Cardinality(Keys)
StoreTrees == [k \in 1..NK |-> IF store[k] = None THEN <<>> ELSE <<TreeR(store[k]), FactsOf(store[k])>>]
RelMatrix == [a \in 1..NK |-> [b \in 1..NK |-> IF store[a] = None \/ store[b] = None THEN <<>>
                                                 ELSE <<Code(store[a], store[b], TRUE), Code(store[a], store[b], FALSE)>>]]
Searches == [a \in 1..NK |-> IF store[a] = None \/ ~IsColl(store[a]) THEN <<>>
                              ELSE [q \in 1..Len(Queries) |-> SetSeq(SearchSemC(store[a], Queries[q]))]]
Emit == n > 0 => PrintT(ToString(<<"STEP", n, last, StoreTrees, RelMatrix, Searches>>))
=============================================================================
