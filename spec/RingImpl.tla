------------------------------- MODULE RingImpl -------------------------------
(***************************************************************************)
(* L2 -- geometry/ring.go, poly.go, line.go, rect.go, point.go transcribed.  *)
(* Rings carry the attributes processPoints computed (SeriesImpl!PP).       *)
(* Every `return` of a case analysis is tagged with a decision site named   *)
(* after its line in ring.go at the pinned commit.                          *)
(***************************************************************************)
EXTENDS KernelImpl, SeriesImpl

\* a ring operand is either a point sequence (closed baseSeries) or a Rect
\* (geometry.Rect implements Ring), written as the one-element sequence
\* << <<minx,miny,maxx,maxy>> >> so that the two cannot be confused
IsRectRing(r) == Len(r) = 1 /\ Len(r[1]) = 4
RectRing(mn, mx) == << <<X(mn), Y(mn), X(mx), Y(mx)>> >>
RectPts(r) == LET q == r[1] IN <<<<q[1],q[2]>>, <<q[3],q[2]>>, <<q[3],q[4]>>, <<q[1],q[4]>>, <<q[1],q[2]>>>>   \* rect.go:43-56 PointAt
RPts(r) == IF IsRectRing(r) THEN RectPts(r) ELSE r
RRect(r) == IF IsRectRing(r) THEN r[1] ELSE PP(r, TRUE).rect
RConvex(r) == IF IsRectRing(r) THEN TRUE ELSE PP(r, TRUE).convex
RClockwise(r) == IF IsRectRing(r) THEN FALSE ELSE PP(r, TRUE).clockwise      \* rect.go:22
REmpty(r) == IF IsRectRing(r) THEN FALSE ELSE EmptyL2(r, TRUE)
RNumPoints(r) == IF IsRectRing(r) THEN 5 ELSE Len(r)
RNumSegs(r) == IF IsRectRing(r) THEN 4 ELSE NumSegmentsL2(r, TRUE)
RSegAt(r, i) == SegmentAtL2(RPts(r), i)                                      \* 1-based

\* ringContainsPoint (ring.go:25-86): strip search, parity toggle, early exit on
\* the first "on" segment in search order.  `hit` does not depend on the search
\* order; `idx` (1-based here, 0 = none) is the first on-segment in index order
\* (brute-force order; indexed orders may report another on-segment).
RECURSIVE RCPscan(_,_,_,_,_)
RCPscan(r, p, allow, i, in) ==
   IF i > RNumSegs(r) THEN [hit |-> in, idx |-> 0]
   ELSE LET s == RSegAt(r, i) IN
        IF ~(Min(Y(s[1]),Y(s[2])) <= Y(p) /\ Y(p) <= Max(Y(s[1]),Y(s[2]))) THEN RCPscan(r, p, allow, i+1, in)
        ELSE LET rc == RaycastL2(s[1], s[2], p) IN
             IF rc = "on" THEN [hit |-> allow, idx |-> i]
             ELSE RCPscan(r, p, allow, i+1, IF rc = "in" THEN ~in ELSE in)
RingContainsPointL2(r, p, allow) ==
   IF ~PtInRect(p, RRect(r)) THEN [hit |-> FALSE, idx |-> 0]                  \* ring.go:26
   ELSE RCPscan(r, p, allow, 1, FALSE)
\* the set of on-segments (any of them may be the idx an indexed search reports)
OnIdxSet(r, p) == {i \in 1..RNumSegs(r) : RaycastL2(RSegAt(r,i)[1], RSegAt(r,i)[2], p) = "on"}

\* Poly.ContainsPoint (poly.go:93-108)
PolyContainsPointL2(ext, holes, p) ==
   /\ RingContainsPointL2(ext, p, TRUE).hit
   /\ \A h \in 1..Len(holes) : ~RingContainsPointL2(holes[h], p, FALSE).hit
\* Line.ContainsPoint (line.go:33-46)
LineContainsPointL2(l, p) == \E i \in 1..NumSegmentsL2(l, FALSE) :
                                RaycastL2(SegmentAtL2(l,i)[1], SegmentAtL2(l,i)[2], p) = "on"
RectContainsPointL2(mn, mx, p) == X(p) >= X(mn) /\ X(p) <= X(mx) /\ Y(p) >= Y(mn) /\ Y(p) <= Y(mx)  \* rect.go:113
=============================================================================
