------------------------------- MODULE RingImpl -------------------------------
(***************************************************************************)
(* L2 -- geometry/ring.go transcribed.  Every `return` of a case analysis   *)
(* is tagged with a decision site named after its line in ring.go at the    *)
(* pinned commit.                                                           *)
(*                                                                          *)
(* A series operand is a tagged tuple (the Go interface geometry.Series):   *)
(*    <<1, pts>>    closed baseSeries (a ring)                               *)
(*    <<2, rect4>>  a geometry.Rect used as a ring (rect.go)                 *)
(*    <<3, pts>>    open baseSeries (a Line used through the Ring interface) *)
(***************************************************************************)
EXTENDS KernelImpl, SeriesImpl

\* operands carry the attributes computed once at construction (makeSeries / processPoints):
\*   <<tag, points, rect, convex, clockwise, number of segments, empty>>
RectPts(q) == <<<<q[1],q[2]>>, <<q[3],q[2]>>, <<q[3],q[4]>>, <<q[1],q[4]>>, <<q[1],q[2]>>>>   \* rect.go:43-56 PointAt
RingOp(pts) == LET pp == PP(pts, TRUE) IN <<1, pts, pp.rect, pp.convex, pp.clockwise, NumSegmentsL2(pts, TRUE), EmptyL2(pts, TRUE)>>
OpenOp(pts) == LET pp == PP(pts, FALSE) IN <<3, pts, pp.rect, pp.convex, pp.clockwise, NumSegmentsL2(pts, FALSE), EmptyL2(pts, FALSE)>>
RectOp(r4) == <<2, RectPts(r4), r4, TRUE, FALSE, 4, FALSE>>                      \* rect.go:22,109,95
IsRectOp(o) == o[1] = 2
Closed(o) == o[1] # 3
SPts(o) == o[2]
SRect(o) == o[3]
SConvex(o) == o[4]
SClockwise(o) == o[5]
SEmpty(o) == o[7]
SNumPoints(o) == Len(o[2])
SNumSegs(o) == o[6]
SSegAt(o, i) == SegmentAtL2(o[2], i)                                             \* 1-based
SPointAt(o, i) == o[2][i]
Area4(r) == (r[3]-r[1]) * (r[4]-r[2])

\* ringContainsPoint (ring.go:25-86): strip search, parity toggle, early exit on
\* the first "on" segment in search order.  `hit` does not depend on the search
\* order; `idx` (1-based here, 0 = none) is the on-segment the search met first:
\* the lowest index without an index, possibly another one with an index, so the
\* callers below take idx as a parameter ranging over OnIdxSet.
RECURSIVE RCPscan(_,_,_,_,_)
RCPscan(o, p, allow, i, in) ==
   IF i > SNumSegs(o) THEN [hit |-> in, idx |-> 0]
   ELSE LET s == SSegAt(o, i) IN
        IF ~(Min(Y(s[1]),Y(s[2])) <= Y(p) /\ Y(p) <= Max(Y(s[1]),Y(s[2]))) THEN RCPscan(o, p, allow, i+1, in)
        ELSE LET rc == RaycastL2(s[1], s[2], p) IN
             IF rc = "on" THEN [hit |-> allow, idx |-> i]
             ELSE RCPscan(o, p, allow, i+1, IF rc = "in" THEN ~in ELSE in)
RingContainsPointL2(o, p, allow) ==
   IF ~PtInRect(p, SRect(o)) THEN [hit |-> FALSE, idx |-> 0]                  \* ring.go:26
   ELSE RCPscan(o, p, allow, 1, FALSE)
OnIdxSet(o, p) == IF ~PtInRect(p, SRect(o)) THEN {}
                  ELSE {i \in 1..SNumSegs(o) : RaycastL2(SSegAt(o,i)[1], SSegAt(o,i)[2], p) = "on"}
IdxChoices(o, p) == IF OnIdxSet(o, p) = {} THEN {0} ELSE OnIdxSet(o, p)

\* candidates of ring.Search(seg.Rect(), ...)
SegsMeeting(o, a, b) == {i \in 1..SNumSegs(o) : RectMeets(SegRect(SSegAt(o,i)[1], SSegAt(o,i)[2]), SegRect(a, b))}

\* ringContainsSegment (ring.go:99-243) with the on-edge indexes ia, ib the two
\* point searches reported: <<answer, site>>
RCSat(o, a, b, allow, ia, ib) ==
  LET rc == SRect(o) IN
  IF ~PtInRect(a, rc) \/ ~PtInRect(b, rc) THEN <<FALSE, "ring.go:101">>
  ELSE LET ra == RingContainsPointL2(o, a, allow) IN
  IF ~ra.hit THEN <<FALSE, "ring.go:108">>
  ELSE IF a = b THEN <<TRUE, "ring.go:111">>
  ELSE LET rb == RingContainsPointL2(o, b, allow) IN
  IF ~rb.hit THEN <<FALSE, "ring.go:116">>
  ELSE IF SConvex(o) THEN <<TRUE, "ring.go:120">>
  ELSE LET cand == SegsMeeting(o, a, b)
           Hit(i) == SegIntersectsL2(a, b, SSegAt(o,i)[1], SSegAt(o,i)[2])
           OnA(i) == RaycastL2(SSegAt(o,i)[1], SSegAt(o,i)[2], a) = "on"
           OnB(i) == RaycastL2(SSegAt(o,i)[1], SSegAt(o,i)[2], b) = "on"
       IN
  IF allow THEN
    IF ia # 0 THEN
      IF ib # 0 THEN
        IF ib = ia THEN <<TRUE, "ring.go:135">>
        ELSE LET sa == SSegAt(o, ia) sb == SSegAt(o, ib) IN
          IF sa[1] = a \/ sa[2] = a \/ sb[1] = a \/ sb[2] = a \/ sa[1] = b \/ sa[2] = b \/ sb[1] = b \/ sb[2] = b
          THEN <<TRUE, "ring.go:151">>
          ELSE LET s1 == IF ib < ia THEN sb ELSE sa
                   s2 == IF ib < ia THEN sa ELSE sb
                   pts == <<s1[1], s1[2], s2[1], s2[2], s1[1]>>
                   Wd(i) == (X(pts[i+1])-X(pts[i]))*(Y(pts[i+1])+Y(pts[i]))
                   cw == (Wd(1)+Wd(2)+Wd(3)+Wd(4)) > 0
               IN IF cw # SClockwise(o) THEN <<FALSE, "ring.go:169">>
                  ELSE <<~(\E i \in cand : Hit(i) /\ ~OnA(i) /\ ~OnB(i)), "ring.go:184">>
      ELSE <<~(\E i \in cand : Hit(i) /\ ~OnA(i)), "ring.go:199">>
    ELSE IF ib # 0 THEN <<~(\E i \in cand : Hit(i) /\ ~OnB(i)), "ring.go:214">>
    ELSE <<~(\E i \in cand : Hit(i) /\ RaycastL2(a, b, SSegAt(o,i)[1]) # "on" /\ RaycastL2(a, b, SSegAt(o,i)[2]) # "on"), "ring.go:227">>
  ELSE <<~(\E i \in cand : Hit(i)), "ring.go:242">>
\* all outcomes over the admissible on-edge indexes
RCSset(o, a, b, allow) == {RCSat(o, a, b, allow, ia, ib) : ia \in IdxChoices(o, a), ib \in IdxChoices(o, b)}
\* brute-force order (lowest on-index)
RingContainsSegmentL2(o, a, b, allow) ==
   RCSat(o, a, b, allow, RingContainsPointL2(o, a, allow).idx, RingContainsPointL2(o, b, allow).idx)

\* ringIntersectsSegment (ring.go:246-290); the count does not depend on the search order
RingIntersectsSegmentL2(o, a, b, allow) ==
  IF ~RectMeets(SegRect(a, b), SRect(o)) THEN FALSE                               \* ring.go:247
  ELSE IF RingContainsPointL2(o, a, allow).hit THEN TRUE                          \* ring.go:251
  ELSE IF RingContainsPointL2(o, b, allow).hit THEN TRUE                          \* ring.go:254
  ELSE LET hits == {i \in SegsMeeting(o, a, b) : SegIntersectsL2(a, b, SSegAt(o,i)[1], SSegAt(o,i)[2])} IN
       IF allow THEN Cardinality(hits) >= 2
       ELSE LET nc == {i \in hits : ~(CollinearPointL2(a, b, SSegAt(o,i)[1]) /\ CollinearPointL2(a, b, SSegAt(o,i)[2]))}
                tA == {i \in nc : a = SSegAt(o,i)[1] \/ a = SSegAt(o,i)[2]}
                tB == {i \in nc : b = SSegAt(o,i)[1] \/ b = SSegAt(o,i)[2]}
                \* the first segment touching seg.A and the first one touching seg.B are not counted (a non-collinear
                \* segment cannot touch both ends), so the final count is independent of the search order
                cnt == Cardinality(nc) - (IF tA # {} THEN 1 ELSE 0) - (IF tB # {} THEN 1 ELSE 0)
            IN cnt >= 2

\* ringContainsRing (ring.go:292-331): may(o, other, allow, want) = "some admissible
\* choice of on-edge indexes makes the call return `want`"
RECURSIVE RingContainsRingMay(_,_,_,_)
RingContainsRingMay(o, other, allow, want) ==
  IF SEmpty(o) \/ SEmpty(other) THEN want = FALSE                                  \* ring.go:293
  ELSE LET shortcut == SNumPoints(other) >= 16                                      \* ring.go:296-302
           rest(w) ==
             IF ~RectInside(SRect(other), SRect(o)) THEN w = FALSE                  \* ring.go:304
             ELSE IF SConvex(o) THEN
                w = (\A i \in 1..SNumPoints(other) : RingContainsPointL2(o, SPointAt(other,i), allow).hit)   \* ring.go:309-317
             ELSE IF w THEN \A i \in 1..SNumSegs(other) :                           \* ring.go:318-329
                              \E r \in RCSset(o, SSegAt(other,i)[1], SSegAt(other,i)[2], allow) : r[1]
                  ELSE \E i \in 1..SNumSegs(other) :
                              \E r \in RCSset(o, SSegAt(other,i)[1], SSegAt(other,i)[2], allow) : ~r[1]
       IN IF shortcut
          THEN IF want THEN RingContainsRingMay(o, RectOp(SRect(other)), allow, TRUE) \/ rest(TRUE)
               ELSE RingContainsRingMay(o, RectOp(SRect(other)), allow, FALSE) /\ rest(FALSE)
          ELSE rest(want)
\* deterministic version (brute-force search order)
RECURSIVE RingContainsRingL2(_,_,_)
RingContainsRingL2(o, other, allow) ==
  IF SEmpty(o) \/ SEmpty(other) THEN FALSE
  ELSE IF SNumPoints(other) >= 16 /\ RingContainsRingL2(o, RectOp(SRect(other)), allow) THEN TRUE
  ELSE IF ~RectInside(SRect(other), SRect(o)) THEN FALSE
  ELSE IF SConvex(o) THEN \A i \in 1..SNumPoints(other) : RingContainsPointL2(o, SPointAt(other,i), allow).hit
  ELSE \A i \in 1..SNumSegs(other) : RingContainsSegmentL2(o, SSegAt(other,i)[1], SSegAt(other,i)[2], allow)[1]
\* the decision sites of ringContainsSegment reached by a ringContainsRing call (diagnostic)
RingContainsRingSites(o, other, allow) ==
  IF SEmpty(o) \/ SEmpty(other) \/ ~RectInside(SRect(other), SRect(o)) \/ SConvex(o) THEN {}
  ELSE {RingContainsSegmentL2(o, SSegAt(other,i)[1], SSegAt(other,i)[2], allow)[2] : i \in 1..SNumSegs(other)}

RingIntersectsRingL2(o, other, allow) ==                                           \* ring.go:333-354
  IF SEmpty(o) \/ SEmpty(other) THEN FALSE
  ELSE IF ~RectMeets(SRect(o), SRect(other)) THEN FALSE
  ELSE LET swap == Area4(SRect(other)) > Area4(SRect(o))
           big == IF swap THEN other ELSE o
           small == IF swap THEN o ELSE other
       IN \E i \in 1..SNumSegs(small) : RingIntersectsSegmentL2(big, SSegAt(small,i)[1], SSegAt(small,i)[2], allow)
RingIntersectsLineL2(o, l, allow) ==                                               \* ring.go:361-382 (l = OpenOp(pts))
  IF SEmpty(o) \/ SEmpty(l) THEN FALSE
  ELSE IF ~RectMeets(SRect(o), SRect(l)) THEN FALSE
  ELSE \/ \E i \in 1..SNumPoints(l) : RingContainsPointL2(o, SPointAt(l,i), allow).hit
       \/ \E i \in 1..SNumSegs(l) : RingIntersectsSegmentL2(o, SSegAt(l,i)[1], SSegAt(l,i)[2], allow)
=============================================================================
