------------------------------ MODULE Concurrent ------------------------------
(***************************************************************************)
(* C16 at model level (theorem T9).  Threads call query methods on shared  *)
(* objects; a call is Begin, a sequence of atomic field accesses, End.      *)
(* In the FAITHFUL model (Lazy = FALSE) every access is a read: all derived *)
(* state (rect, convex, clockwise, compressed index, collection rectangle   *)
(* and child index) was computed by the constructor.  TLC then shows that   *)
(* no two concurrent accesses race and that every call returns the value    *)
(* it returns when run alone, in every interleaving.  With Lazy = TRUE a    *)
(* method fills a cache field on first use (what a lazily built index, a    *)
(* memoised Circle polygon or a package-level scratch buffer would be): TLC *)
(* finds a race and a schedule-dependent reply -- the non-vacuity witness.  *)
(* Hence C16 reduces to the premise "no query method writes memory          *)
(* reachable from an object or package state", which the conformance        *)
(* checks establish on the real code (digest sweep + race-detector stress). *)
(***************************************************************************)
EXTENDS Integers, Sequences, FiniteSets, TLC
CONSTANTS Threads, Objects, Lazy
Fields == {"data", "cache"}
VARIABLES mem,      \* mem[o][f]: value of field f of object o (cache = 0 means "not built")
          pc,       \* per thread: "idle" | "reading" | "writing" | "done"
          cur,      \* per thread: the object of the call in flight
          acc,      \* per thread: accumulated reply
          raced     \* a read/write or write/write pair on the same field by different threads was enabled together
vars == <<mem, pc, cur, acc, raced>>
Derived(d) == d * 2 + 1                          \* what the cache holds once built
Solo(o) == Derived(o)                            \* the reply of the call run alone on object o (data = o)
Init == /\ mem = [o \in Objects |-> [f \in Fields |-> IF f = "data" THEN o ELSE IF Lazy THEN 0 ELSE Derived(o)]]
        /\ pc = [t \in Threads |-> "idle"] /\ cur = [t \in Threads |-> CHOOSE o \in Objects : TRUE]
        /\ acc = [t \in Threads |-> 0] /\ raced = FALSE
Begin(t) == /\ pc[t] = "idle" /\ \E o \in Objects : cur' = [cur EXCEPT ![t] = o]
            /\ pc' = [pc EXCEPT ![t] = "reading"] /\ UNCHANGED <<mem, acc, raced>>
\* the method reads the cache; if it is not built (lazy variant only) it goes on to build it
ReadCache(t) == /\ pc[t] = "reading"
                /\ LET v == mem[cur[t]]["cache"] IN
                   IF v # 0 THEN acc' = [acc EXCEPT ![t] = v] /\ pc' = [pc EXCEPT ![t] = "done"]
                   ELSE acc' = acc /\ pc' = [pc EXCEPT ![t] = "writing"]
                /\ raced' = (raced \/ \E u \in Threads \ {t} : pc[u] = "writing" /\ cur[u] = cur[t])
                /\ UNCHANGED <<mem, cur>>
WriteCache(t) == /\ pc[t] = "writing"
                 /\ mem' = [mem EXCEPT ![cur[t]]["cache"] = Derived(mem[cur[t]]["data"])]
                 /\ acc' = [acc EXCEPT ![t] = Derived(mem[cur[t]]["data"])]
                 /\ pc' = [pc EXCEPT ![t] = "done"]
                 /\ raced' = (raced \/ \E u \in Threads \ {t} : pc[u] \in {"reading", "writing"} /\ cur[u] = cur[t])
                 /\ UNCHANGED cur
End(t) == pc[t] = "done" /\ pc' = [pc EXCEPT ![t] = "idle"] /\ UNCHANGED <<mem, cur, acc, raced>>
Next == \E t \in Threads : Begin(t) \/ ReadCache(t) \/ WriteCache(t) \/ End(t)
Spec == Init /\ [][Next]_vars
\* ---- the properties
Immutable == [][mem' = mem]_vars                                   \* no query writes object memory
RaceFree == ~raced
Deterministic == \A t \in Threads : pc[t] = "done" => acc[t] = Solo(cur[t])
=============================================================================
