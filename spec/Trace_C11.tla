------------------------------ MODULE Trace_C11 ------------------------------
(* Judges Rect / Center / Valid / Empty / NumPoints events recorded from real
   objects (built by constructors or by Parse) against L1 (Objects). *)
EXTENDS ObjectsImpl, TraceBase
Exp(e) ==
   CASE e.op = "empty" -> EmptyObj(e.tree)
     [] e.op = "valid" -> ValidObj(e.tree)
     [] e.op = "rect" -> IF EmptyObj(e.tree) THEN <<"no rectangle: the object is empty">> ELSE RectObj(e.tree)
     [] e.op = "center2" -> IF EmptyObj(e.tree) THEN <<"no centre: the object is empty">> ELSE Center2Obj(e.tree)
     [] e.op = "npoints" -> NumPointsObj(e.tree)
Pred(e) ==
   CASE e.op = "empty" -> <<EmptyL2o(e.tree), "Empty">>
     [] e.op = "valid" -> <<ValidL2o(e.tree), ValidSiteL2o(e.tree)>>
     [] e.op = "rect" -> <<IF EmptyObj(e.tree) THEN <<>> ELSE RectL2o(e.tree), "collection.go:parseInitRectIndex/series.go:processPoints">>
     [] e.op = "center2" -> <<IF EmptyObj(e.tree) THEN <<>> ELSE IF OKind(e.tree) \in {"Point","SimplePoint"} THEN Center2Obj(e.tree)
                              ELSE LET r == RectL2o(e.tree) IN <<r[1]+r[3], r[2]+r[4]>>, "Center">>
     [] e.op = "npoints" -> <<NumPointsObj(e.tree), "NumPoints">>
Judge == pos > 0 =>
   LET e == Trace[pos] IN
   IF e.got = Exp(e) THEN TRUE
   ELSE PrintT(ToString(<<"MISMATCH", pos, Exp(e), Pred(e)[1], Pred(e)[2]>>))
=============================================================================
