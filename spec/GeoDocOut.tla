------------------------------- MODULE GeoDocOut -------------------------------
(***************************************************************************)
(* L1 -- what the JSON output of an accepted document must SAY (C06): the   *)
(* same GeoJSON type, every position's x and y, the z/m values of the       *)
(* declared dimensionality (that of the first position of the line or       *)
(* polygon; missing values are 0, surplus ones are dropped), child order,   *)
(* and all foreign members with their values in their original order; a     *)
(* Feature always has a properties member.  Info(d) extracts exactly that   *)
(* information; the output must satisfy  OutInfo(out) = ExpInfo(in).        *)
(***************************************************************************)
EXTENDS GeoDoc
\* the required member of an object's own type; every other member except "type" is a foreign member - also one that is named
\* like the required member of ANOTHER type (the pinned code drops those: known finding KF-C06-alien-members)
OwnKey(d) == LET t == Get(d, "type") IN
             IF t[1] # "s" THEN "coordinates"
             ELSE CASE t[2] = "GeometryCollection" -> "geometries" [] t[2] = "Feature" -> "geometry" [] t[2] = "FeatureCollection" -> "features" [] OTHER -> "coordinates"
Foreign(d) == SelectSeq(Members(d), LAMBDA m : m[1] \notin {"type", OwnKey(d)})
DimsOf(pos) == MinI(4, Len(Items(pos))) - 2
\* a position written with exactly 2+dims ordinates
NormPos(pos, dims) == Arr([i \in 1..(2 + dims) |-> IF i <= MinI(4, Len(Items(pos))) THEN Items(pos)[i] ELSE Num(0)])
NormLine(l) == IF Len(Items(l)) = 0 THEN l
               ELSE LET dims == DimsOf(Items(l)[1]) IN Arr([i \in 1..Len(Items(l)) |-> NormPos(Items(l)[i], dims)])
NormPoly(p) == IF Len(Items(p)) = 0 \/ Len(Items(Items(p)[1])) = 0 THEN p
               ELSE LET dims == DimsOf(Items(Items(p)[1])[1]) IN
                    Arr([r \in 1..Len(Items(p)) |-> Arr([i \in 1..Len(Items(Items(p)[r])) |-> NormPos(Items(Items(p)[r])[i], dims)])])
MapArr(a, F(_)) == Arr([i \in 1..Len(Items(a)) |-> F(Items(a)[i])])
RECURSIVE ExpInfo(_), OutInfo(_)
ExpInfo(d) ==
   LET t == Get(d, "type")[2]
       c == Get(d, "coordinates")
       fm == Foreign(d)
   IN [type |-> t,
       payload |-> CASE t = "Point" -> NormPos(c, DimsOf(c))
                     [] t = "MultiPoint" -> MapArr(c, LAMBDA p : NormPos(p, DimsOf(p)))
                     [] t = "LineString" -> NormLine(c)
                     [] t = "MultiLineString" -> MapArr(c, NormLine)
                     [] t = "Polygon" -> NormPoly(c)
                     [] t = "MultiPolygon" -> MapArr(c, NormPoly)
                     [] t = "GeometryCollection" -> [i \in 1..Len(Items(Get(d, "geometries"))) |-> ExpInfo(Items(Get(d, "geometries"))[i])]
                     [] t = "FeatureCollection" -> [i \in 1..Len(Items(Get(d, "features"))) |-> ExpInfo(Items(Get(d, "features"))[i])]
                     [] t = "Feature" -> ExpInfo(Get(d, "geometry")),
       foreign |-> IF t = "Feature" /\ ~\E i \in 1..Len(fm) : fm[i][1] = "properties"
                   THEN Append(fm, <<"properties", Obj(<<>>)>>) ELSE fm]
\* the same extraction on an output document, taken as written
OutInfo(d) ==
   IF ~IsObj(d) \/ Get(d, "type") = None \/ ~IsStr(Get(d, "type")) THEN [type |-> "?", payload |-> d, foreign |-> <<>>]
   ELSE LET t == Get(d, "type")[2] IN
   [type |-> t,
    payload |-> CASE t \in {"Point", "MultiPoint", "LineString", "MultiLineString", "Polygon", "MultiPolygon"} -> Get(d, "coordinates")
                  [] t = "GeometryCollection" -> (IF Has(d, "geometries") /\ IsArr(Get(d, "geometries"))
                                                  THEN [i \in 1..Len(Items(Get(d, "geometries"))) |-> OutInfo(Items(Get(d, "geometries"))[i])] ELSE <<"?">>)
                  [] t = "FeatureCollection" -> (IF Has(d, "features") /\ IsArr(Get(d, "features"))
                                                 THEN [i \in 1..Len(Items(Get(d, "features"))) |-> OutInfo(Items(Get(d, "features"))[i])] ELSE <<"?">>)
                  [] t = "Feature" -> (IF Has(d, "geometry") THEN OutInfo(Get(d, "geometry")) ELSE <<"?">>)
                  [] OTHER -> <<"?">>,
    foreign |-> Foreign(d)]
\* Members(): the foreign members of the (top-level) object as one JSON object, or absent when there are none
ExpMembers(d) == IF Foreign(d) = <<>> THEN None ELSE Obj(Foreign(d))
\* IsPoint(): z is the third ordinate of a Point (0 when it has none)
ExpZ(d) == LET c == Get(d, "coordinates") IN IF Len(Items(c)) >= 3 THEN Items(c)[3] ELSE Num(0)
\* known keys appear once each in the output
KnownOnce(d) == \A k \in {"type", "coordinates", "geometries", "geometry", "features"} : Cardinality({i \in 1..Len(Members(d)) : Members(d)[i][1] = k}) <= 1
=============================================================================
